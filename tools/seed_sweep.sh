#!/bin/bash
# tools/seed_sweep.sh <tier> <seed> [<seed> ...] : quietness sweep (every check at several seeds), prints only problems and a summary
TIER="$1"; shift
HERE="$(cd "$(dirname "$0")/.." && pwd)"
for S in "$@"; do
  "$HERE/tools/run_all.sh" "$TIER" "$S" > "/tmp/sweep_$S.log" 2>&1
  echo "seed $S: $(grep -c 'rc=0' /tmp/sweep_$S.log) ok, $(grep -c -v 'rc=0' /tmp/sweep_$S.log) other lines"
  grep -v "rc=0" "/tmp/sweep_$S.log" | cut -c1-400
done
