#!/bin/bash
# tools/seeds_all.sh [tier] : apply every stored seeded change to /repo in turn, run the checks named in its meta.json, undo it, and tabulate
TIER="${1:-quick}"
HERE="$(cd "$(dirname "$0")/.." && pwd)"
for D in "$HERE"/seeded/*/; do
  ID=$(basename "$D")
  PROPS=$(python3 -c "import json,sys; print(' '.join(json.load(open('$D/meta.json'))['checks_run'].keys()))")
  echo "== $ID ($PROPS)"
  "$HERE/tools/seedcheck.sh" "$D/patch.diff" "$TIER" $PROPS 2>&1 | cut -c1-200
done
