#!/venv/bin/python
"""Summarise mutsweep/<module>.jsonl: per module how many mutants the repository tests kill, how many only the checks kill
(and which property's check), how many survive. Prints a markdown table; `--survivors` lists the surviving mutants."""
import collections
import glob
import json
import os
import sys

HERE = os.path.dirname(os.path.dirname(os.path.abspath(__file__)))


def main():
    rows = []
    tot = collections.Counter()
    bycheck = collections.Counter()
    survivors = []
    for path in sorted(glob.glob(os.path.join(HERE, 'mutsweep', '*.jsonl'))):
        mod = os.path.basename(path)[:-6]
        seen = {}
        for line in open(path):
            if line.strip():
                r = json.loads(line)
                seen[r['site']] = r      # a later judgement of the same site (after a check was strengthened) replaces the earlier one
        c = collections.Counter()
        ck = collections.Counter()
        for r in seen.values():
            v = r['verdict']
            if v.startswith('check:'):
                c['check'] += 1; ck[v[6:]] += 1; bycheck[v[6:]] += 1
            else:
                c[v] += 1
            if v == 'survived':
                survivors.append((mod, r['line'], r['site'], r['mutation']))
        n = sum(c.values())
        rows.append((mod, n, c['tests'], c['check'], ', '.join(f'{k}:{v}' for k, v in sorted(ck.items())), c['survived']))
        tot.update(c); tot['n'] += n
    print('| module | mutants judged | killed by the repository tests | pass the tests, killed by a check | (first killing check) | survive |')
    print('|---|---|---|---|---|---|')
    for r in rows:
        print('| %s | %d | %d | %d | %s | %d |' % r)
    print('| **total** | %d | %d | %d | %s | %d |' % (tot['n'], tot['tests'], tot['check'], ', '.join(f'{k}:{v}' for k, v in sorted(bycheck.items())), tot['survived']))
    if '--survivors' in sys.argv:
        for s in sorted(survivors):
            print('%-16s line %4d  site %4d  %s' % s)


if __name__ == '__main__':
    main()
