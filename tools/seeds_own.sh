#!/bin/bash
# tools/seeds_own.sh [jobs] : every stored seeded change against the quick check of the property it breaks (scratch copies, in parallel);
# prints one line per seed; a seed whose own check exits 0 is a regression of the machinery
JOBS="${1:-4}"
HERE="$(cd "$(dirname "$0")/.." && pwd)"
export VERIF_CASE_LIMIT="${VERIF_CASE_LIMIT:-120}"
ls -d "$HERE"/seeded/*/ | xargs -P "$JOBS" -I{} bash -c '
  D="{}"; ID=$(basename "$D"); P=$(python3 -c "import json; m=json.load(open(\"$D/meta.json\")); print(m.get(\"own_check\", m[\"breaks_property\"]))")
  if [ "$P" = none ]; then echo "$ID declined (outside the input domain): no check expected to report it"; exit 0; fi
  R=$("'"$HERE"'/tools/seedcheck.sh" "$D/patch.diff" quick $P 2>&1 | grep -v WARN | grep "exit=" | cut -c1-160)
  echo "$ID $R"'
