#!/bin/bash
# tools/seedverify.sh <worktree> <seed-id> : confirm a seeded change independently, then store it under seeded/<seed-id>/
set -u
WT="$1"; ID="$2"
HERE="$(cd "$(dirname "$0")/.." && pwd)"
OUT="$HERE/seeded/$ID"; mkdir -p "$OUT"
cd "$WT" || exit 3
git diff -- pytenet > "$OUT/patch.diff"
[ -s "$OUT/patch.diff" ] || { echo "empty patch"; exit 3; }
cp seed_out/demo.py "$OUT/demo.py"; cp seed_out/notes.md "$OUT/notes.md" 2>/dev/null
export PYTHONPATH="$WT" OMP_NUM_THREADS=1 OPENBLAS_NUM_THREADS=1
/venv/bin/python -W ignore "$OUT/demo.py" > "$OUT/demo_with_change.log" 2>&1; RC_WITH=$?
git apply -R "$OUT/patch.diff"
/venv/bin/python -W ignore "$OUT/demo.py" > "$OUT/demo_without_change.log" 2>&1; RC_WITHOUT=$?
git apply "$OUT/patch.diff"
/venv/bin/python -m pytest -q -p no:cacheprovider --timeout=1800 > "$OUT/pytest_with_change.log" 2>&1; RC_TEST=$?
TAIL=$(grep -E "passed|failed" "$OUT/pytest_with_change.log" | tail -1)
echo "$ID demo_with=$RC_WITH demo_without=$RC_WITHOUT pytest_rc=$RC_TEST [$TAIL]" | tee "$OUT/verify.txt"
