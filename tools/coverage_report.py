#!/venv/bin/python
"""
Which lines of pytenet do the checks execute at all?

    tools/coverage_report.py [tier] [Cxx ...]      (default: quick, all properties)

Runs the checks with VERIF_COVER set (the runner then records executed pytenet lines with sys.monitoring, see
core._cover_start), unions the per-worker line sets and lists, per function, the body lines never executed.
Executed is not the same as constrained (the mutation sweep, tools/mutsweep.py, measures that); this report
only finds code no generator reaches. Evidence of the run goes to a scratch directory, not to evidence/.
Writes coverage/summary.json and prints the uncovered lines.
"""
import ast
import glob
import json
import os
import shutil
import subprocess
import sys
import tempfile

HERE = os.path.dirname(os.path.dirname(os.path.abspath(__file__)))
REPO = os.environ.get('PYTENET_PATH', '/repo')


def function_lines(path):
    """{qualified function name: sorted executable body lines} using the compiled code objects."""
    src = open(path).read()
    code = compile(src, path, 'exec')
    out = {}
    tree = ast.parse(src)
    doclines = set()
    for node in ast.walk(tree):
        if isinstance(node, (ast.FunctionDef, ast.ClassDef, ast.Module)) and node.body:
            b = node.body[0]
            if isinstance(b, ast.Expr) and isinstance(b.value, ast.Constant) and isinstance(b.value.value, str):
                doclines.update(range(b.lineno, b.end_lineno + 1))

    def walk(co, prefix):
        for c in co.co_consts:
            if hasattr(c, 'co_code'):
                name = (prefix + '.' if prefix else '') + c.co_name
                if c.co_name.startswith('<') and c.co_name != '<lambda>':
                    # comprehensions are inlined in 3.12; generator expressions count with their parent
                    walk(c, prefix)
                    continue
                lines = sorted({l for _, _, l in c.co_lines() if l is not None and l != c.co_firstlineno and l not in doclines})
                out.setdefault(name, set()).update(lines)
                walk(c, name)
    walk(code, '')
    return {k: sorted(v) for k, v in out.items()}


def main():
    args = sys.argv[1:]
    tier = 'quick'
    if args and args[0] in ('quick', 'thorough'):
        tier = args.pop(0)
    props = args or ['C%02d' % i for i in range(1, 21)]
    d = tempfile.mkdtemp(prefix='ptcov.', dir='/tmp')
    try:
        env = dict(os.environ, VERIF_COVER=os.path.join(d, 'cov'), VERIF_EVIDENCE_DIR=os.path.join(d, 'ev'), VERIF_REPLAY_DIR=os.path.join(d, 'rp'))
        for p in props:
            r = subprocess.run([os.path.join(HERE, 'run'), p, tier], cwd=HERE, env=env, stdout=subprocess.PIPE, stderr=subprocess.STDOUT, text=True)
            print(p, 'exit', r.returncode, flush=True)
        hit = set()
        for f in glob.glob(os.path.join(d, 'cov', 'cov-*.json')):
            hit |= {tuple(x) for x in json.load(open(f))}
    finally:
        shutil.rmtree(d, ignore_errors=True)
    summary = {}
    tot = cov = 0
    for path in sorted(glob.glob(os.path.join(REPO, 'pytenet', '*.py'))):
        mod = os.path.basename(path)
        if mod == '__init__.py':
            continue
        fl = function_lines(path)
        for fn, lines in sorted(fl.items(), key=lambda kv: kv[1][0] if kv[1] else 0):
            miss = [l for l in lines if (mod, l) not in hit]
            tot += len(lines); cov += len(lines) - len(miss)
            if miss:
                summary.setdefault(mod, {})[fn] = {'lines': len(lines), 'missed': miss}
    print('function-body lines: %d, executed by the %s tier of %d checks: %d (%.1f%%)' % (tot, tier, len(props), cov, 100.0 * cov / max(tot, 1)))
    for mod, fns in summary.items():
        for fn, v in fns.items():
            print('  %-20s %-48s %3d/%3d missed: %s' % (mod, fn, len(v['missed']), v['lines'], v['missed'][:24]))
    os.makedirs(os.path.join(HERE, 'coverage'), exist_ok=True)
    with open(os.path.join(HERE, 'coverage', 'summary-%s.json' % tier), 'w') as f:
        json.dump({'tier': tier, 'properties': props, 'body_lines': tot, 'executed': cov, 'uncovered': summary}, f, indent=1, sort_keys=True)


if __name__ == '__main__':
    main()
