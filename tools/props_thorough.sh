#!/bin/bash
# tools/props_thorough.sh <seed> <Cxx> [<Cxx> ...] : thorough tier of several properties at one seed (quietness record after generator changes)
cd "$(dirname "$0")/.." || exit 3
S="$1"; shift
for P in "$@"; do tools/prop_sweep.sh thorough "$P" "$S"; done
