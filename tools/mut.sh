#!/bin/bash
# tools/mut.sh <file-in-pytenet> <sed-expression> <Cxx> [<Cxx> ...]
# Sensitivity aid: apply an edit to a scratch copy of pytenet and run quick checks against it.
set -u
F="$1"; EXPR="$2"; shift 2
D=$(mktemp -d /tmp/ptmut.XXXXXX)
cp -r /repo/pytenet "$D/"
sed -i "$EXPR" "$D/pytenet/$F"
if diff -q /repo/pytenet/"$F" "$D/pytenet/$F" >/dev/null; then echo "MUTATION DID NOT APPLY"; rm -rf "$D"; exit 3; fi
diff /repo/pytenet/"$F" "$D/pytenet/$F" | head -6
for P in "$@"; do
  VERIF_EVIDENCE_DIR="$D" PYTENET_PATH="$D" "$(dirname "$0")/../run" "$P" quick > "$D/out.$P" 2>&1
  echo "$P exit=$? $(grep -c '^VIOLATION' "$D/out.$P") violation line(s); $(grep -m1 -B1 '^VIOLATION' "$D/out.$P" | head -1 | cut -c1-200)"
  grep HARNESS-ERROR "$D/out.$P" | head -3
done
rm -rf "$D"
rm -f "$(dirname "$0")"/../replays/*/fail-*.json
