import json, os, sys
rnd=sys.argv[1]; props=sys.argv[2:]
base=open('/tmp/agent_prompt.txt').read()
allprev=[]
for sid in sorted(d for d in os.listdir('/verif/seeded') if os.path.isdir('/verif/seeded/'+d)):
    m=json.load(open(f'/verif/seeded/{sid}/meta.json'))
    allprev.append((m['breaks_property'], f"- {m['change']} (needs: {m['needs_to_manifest']})"))
mech = sorted({t.split(' (needs:')[0][2:90] for _,t in allprev})
for p in props:
    prev=[t for q,t in allprev if q==p]
    extra = ("\n\nSeeded changes that other people already produced for this property (do NOT repeat these mechanisms or manifest conditions; find a genuinely different one, ideally in a different function and of a different kind):\n"
             + "\n".join(prev) +
             "\nShort list of mechanisms already used for the other properties (avoid these too):\n" + "\n".join('  * '+m for m in mech) +
             "\nPrefer changes that need a multi-step sequence of public operations, an interaction between two functions or modules, an unusual but legal argument form (container type, numeric type, flag type, id values), or a size / index range the tests never reach.\n")
    t=base.replace('WORKTREE',f'/tmp/wt{rnd}_'+p).replace('PROPERTY\n-----', open(f'/tmp/prop_{p}.txt').read()+'-----')
    t=t.replace("Read the relevant source and the tests first", extra+"\nRead the relevant source and the tests first")
    open(f'/tmp/agent_prompt{rnd}_{p}.txt','w').write(t)
print('ok', len(mech))
