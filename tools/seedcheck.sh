#!/bin/bash
# tools/seedcheck.sh <patch.diff> <tier> <Cxx> [<Cxx> ...]
# Apply a seeded change to /repo, run the given checks, and undo the change straight afterwards.
set -u
PATCH="$(readlink -f "$1")"; TIER="$2"; shift 2
HERE="$(cd "$(dirname "$0")/.." && pwd)"
if [ -n "$(git -C /repo status --porcelain --untracked-files=no)" ]; then echo "/repo not clean"; exit 3; fi
git -C /repo apply "$PATCH" || { echo "patch does not apply"; exit 3; }
trap 'git -C /repo checkout -- . ; rm -f "$HERE"/replays/*/fail-*.json' EXIT
for P in "$@"; do
  OUT=$(mktemp)
  VERIF_EVIDENCE_DIR="$(mktemp -d)" "$HERE/run" "$P" "$TIER" > "$OUT" 2>&1
  echo "$P exit=$? : $(grep -c '^VIOLATION' "$OUT") VIOLATION line(s); $(grep -m1 -B1 '^VIOLATION' "$OUT" | head -1 | cut -c1-260)"
  grep -h HARNESS-ERROR "$OUT" | head -2
  rm -f "$OUT"
done
