#!/bin/bash
# tools/seedcheck.sh <patch.diff> <tier> <Cxx> [<Cxx> ...]
# Run checks against a seeded change. The change is applied to a scratch copy of /repo's working tree (PYTENET_PATH points
# the checks at it), so /repo itself is never touched and background runs that read /repo are not disturbed. The scratch
# copy is removed afterwards. (Equivalent to `git -C /repo apply`, run, `git -C /repo checkout -- .`.)
set -u
PATCH="$(readlink -f "$1")"; TIER="$2"; shift 2
HERE="$(cd "$(dirname "$0")/.." && pwd)"
D=$(mktemp -d /tmp/ptseed.XXXXXX)
trap 'rm -rf "$D"; rm -f "$HERE"/replays/*/fail-*.json' EXIT
cp -r /repo/pytenet "$D/"
( cd "$D" && git apply --unsafe-paths --directory="$D" "$PATCH" 2>/dev/null ) || ( cd "$D" && patch -s -p1 < "$PATCH" ) || { echo "patch does not apply"; exit 3; }
if diff -rq /repo/pytenet "$D/pytenet" >/dev/null; then echo "patch had no effect"; exit 3; fi
for P in "$@"; do
  OUT="$D/out.$P"
  VERIF_EVIDENCE_DIR="$D/ev" PYTENET_PATH="$D" "$HERE/run" "$P" "$TIER" > "$OUT" 2>&1
  echo "$P exit=$? : $(grep -c '^VIOLATION' "$OUT") VIOLATION line(s); $(grep -m1 -B1 '^VIOLATION' "$OUT" | head -1 | cut -c1-260)"
  grep -h HARNESS-ERROR "$OUT" | head -2
done
