#!/bin/bash
# tools/prop_sweep.sh <tier> <Cxx> <seed> [<seed> ...] : one property at several seeds (quietness record / search for rare manifestations)
cd "$(dirname "$0")/.." || exit 3
TIER="$1"; P="$2"; shift 2
for S in "$@"; do
  OUT=$(VERIF_SEED=$S VERIF_EVIDENCE_DIR=/tmp/propsweep_ev.$$ ./run "$P" "$TIER" 2>&1)
  echo "seed $S rc=$? $(echo "$OUT" | grep -E "^\[$P\]" | tail -1)"
  echo "$OUT" | grep -E "VIOLATION|HARNESS-ERROR|^Violation|Error" | head -5
done
rm -rf /tmp/propsweep_ev.$$
