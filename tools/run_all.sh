#!/bin/bash
# tools/run_all.sh quick|thorough [seed]  : run every registered check sequentially, print one line each
TIER="${1:-quick}"; export VERIF_SEED="${2:-1}"
HERE="$(cd "$(dirname "$0")/.." && pwd)"
for i in $(seq -w 1 20); do
  P="C$i"
  S=$(date +%s)
  OUT=$("$HERE/run" "$P" "$TIER" 2>&1); RC=$?
  E=$(( $(date +%s) - S ))
  echo "$P rc=$RC ${E}s $(echo "$OUT" | grep -c '^VIOLATION') violations $(echo "$OUT" | grep -c '^KNOWN-FINDING') known | $(echo "$OUT" | grep "^\[$P\]" | tail -1)"
  echo "$OUT" | grep -E "^VIOLATION|HARNESS-ERROR" | head -3
done
