#!/bin/bash
# tools/refresh_mutsum.sh : regenerate the mutation-sweep table in DESIGN.md (between the mutsum markers) and mutsweep/SUMMARY.md
cd "$(dirname "$0")/.." || exit 3
/venv/bin/python tools/mutsweep_summary.py 2>/dev/null | grep '^|' > mutsweep/SUMMARY.md
/venv/bin/python - <<'PY'
import re
s=open('DESIGN.md').read()
t=open('mutsweep/SUMMARY.md').read().strip()
s=re.sub(r'<!-- mutsum:begin -->.*?<!-- mutsum:end -->', lambda m: '<!-- mutsum:begin -->\n'+t+'\n<!-- mutsum:end -->', s, flags=re.S)
open('DESIGN.md','w').write(s)
PY
