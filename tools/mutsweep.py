#!/venv/bin/python
"""
Mechanical mutation sweep: how much of pytenet's behaviour do the checks constrain beyond the repository tests?

    tools/mutsweep.py <module> [--n N] [--seed S] [--jobs J] [--tier quick] [--out DIR]

For the pytenet module (e.g. `bond_ops`) every mutation site of a fixed operator set is enumerated on the AST
(comparison boundaries, +/- swaps, and/or swaps, dropped unary minus / not, small integer constants +-1,
'left'/'right' string swaps, += / -= swaps, deleted expression / augmented-assignment statements); `assert`
statements, docstrings and `raise` statements are left alone. N sites are sampled (seeded), each mutant is written
to a scratch copy under /tmp (removed afterwards), and judged in this order:

  1. the repository test file of the module, then the full repository suite      -> 'tests' if any test fails
  2. the quick checks mapped to the module (PYTENET_PATH points at the scratch)   -> 'check:Cxx' for the first that exits 1
  3. otherwise 'survived' (equivalent mutant, or a gap to look at)

Nothing here is registered in MANIFEST.json; it is a tool for validating the machinery (DESIGN section 12).
Results: one JSON line per mutant in <out>/<module>.jsonl plus a summary on stdout.
"""
import argparse
import ast
import copy
import json
import os
import random
import shutil
import signal
import subprocess
import sys
import tempfile
from concurrent.futures import ThreadPoolExecutor

HERE = os.path.dirname(os.path.dirname(os.path.abspath(__file__)))
REPO = os.environ.get('PYTENET_PATH', '/repo')

MAP = {
    'bond_ops': ('test_bond_ops.py', ['C11', 'C12', 'C01', 'C13', 'C03']),
    'qnumber': ('test_mps.py', ['C02', 'C03', 'C01', 'C04']),
    'mps': ('test_mps.py', ['C01', 'C02', 'C03', 'C04', 'C13', 'C12', 'C19']),
    'mpo': ('test_mpo.py', ['C01', 'C02', 'C03', 'C05', 'C12', 'C19', 'C07']),
    'operation': ('test_operation.py', ['C04', 'C03', 'C08', 'C10', 'C02']),
    'opchain': ('test_opchain.py', ['C05', 'C19', 'C20']),
    'opgraph': ('test_opgraph.py', ['C05', 'C16', 'C17', 'C20', 'C19']),
    'optree': ('test_optree.py', ['C17', 'C19']),
    'autop': ('test_hamiltonian.py', ['C17', 'C06']),
    'bipartite_graph': ('test_bipartite_graph.py', ['C18', 'C20', 'C07']),
    'krylov': ('test_krylov.py', ['C14', 'C15', 'C10', 'C09', 'C08']),
    'evolution': ('test_evolution.py', ['C08', 'C09', 'C02', 'C19']),
    'minimization': ('test_minimization.py', ['C10', 'C02', 'C19']),
    'hamiltonian': ('test_hamiltonian.py', ['C06', 'C07', 'C20']),
}


class Mutator(ast.NodeTransformer):
    """Enumerates mutation sites in traversal order; applies the `target`-th (or none when target is None)."""

    def __init__(self, target=None):
        self.target = target
        self.count = 0
        self.sites = []
        self.applied = None

    def _site(self, node, desc):
        idx = self.count
        self.count += 1
        self.sites.append((idx, getattr(node, 'lineno', 0), desc))
        if idx == self.target:
            self.applied = (getattr(node, 'lineno', 0), desc)
            return True
        return False

    # statements that are left alone
    def visit_Assert(self, node):
        return node

    def visit_Raise(self, node):
        return node

    def visit_Expr(self, node):
        if isinstance(node.value, ast.Constant) and isinstance(node.value.value, str):
            return node  # docstring
        if isinstance(node.value, ast.Call):
            if self._site(node, 'delete statement: ' + ast.unparse(node)[:70]):
                return ast.copy_location(ast.Pass(), node)
        return self.generic_visit(node)

    def visit_AugAssign(self, node):
        if self._site(node, 'delete statement: ' + ast.unparse(node)[:70]):
            return ast.copy_location(ast.Pass(), node)
        if isinstance(node.op, (ast.Add, ast.Sub)):
            if self._site(node, 'augassign +=/-= swap: ' + ast.unparse(node)[:70]):
                node = copy.copy(node)
                node.op = ast.Sub() if isinstance(node.op, ast.Add) else ast.Add()
                return node
        return self.generic_visit(node)

    def visit_Compare(self, node):
        swaps = {ast.Lt: ast.LtE, ast.LtE: ast.Lt, ast.Gt: ast.GtE, ast.GtE: ast.Gt, ast.Eq: ast.NotEq, ast.NotEq: ast.Eq}
        for i, op in enumerate(node.ops):
            if type(op) in swaps:
                if self._site(node, f'compare {type(op).__name__}->{swaps[type(op)].__name__}: ' + ast.unparse(node)[:70]):
                    node = copy.copy(node)
                    node.ops = list(node.ops)
                    node.ops[i] = swaps[type(op)]()
                    return node
        return self.generic_visit(node)

    def visit_BinOp(self, node):
        if isinstance(node.op, (ast.Add, ast.Sub)):
            if self._site(node, 'binop +/- swap: ' + ast.unparse(node)[:70]):
                node = copy.copy(node)
                node.op = ast.Sub() if isinstance(node.op, ast.Add) else ast.Add()
                return node
        return self.generic_visit(node)

    def visit_BoolOp(self, node):
        if self._site(node, 'and/or swap: ' + ast.unparse(node)[:70]):
            node = copy.copy(node)
            node.op = ast.Or() if isinstance(node.op, ast.And) else ast.And()
            return node
        return self.generic_visit(node)

    def visit_UnaryOp(self, node):
        if isinstance(node.op, (ast.USub, ast.Not)) and not (isinstance(node.operand, ast.Constant)):
            if self._site(node, 'drop unary: ' + ast.unparse(node)[:70]):
                return node.operand
        return self.generic_visit(node)

    def visit_Constant(self, node):
        v = node.value
        if isinstance(v, bool) or v is None:
            return node
        if isinstance(v, int) and -4 <= v <= 4:
            for dv in (1, -1):
                if self._site(node, f'int constant {v}->{v + dv}'):
                    return ast.copy_location(ast.Constant(v + dv), node)
        if isinstance(v, str) and v in ('left', 'right'):
            if self._site(node, f'string {v!r} swapped'):
                return ast.copy_location(ast.Constant('right' if v == 'left' else 'left'), node)
        return node


def enumerate_sites(src):
    m = Mutator(None)
    m.visit(ast.parse(src))
    return m.sites


def mutate(src, idx):
    m = Mutator(idx)
    tree = m.visit(ast.parse(src))
    ast.fix_missing_locations(tree)
    return ast.unparse(tree) + '\n', m.applied


def run(cmd, cwd, env, timeout):
    p = subprocess.Popen(cmd, cwd=cwd, env=env, stdout=subprocess.PIPE, stderr=subprocess.STDOUT, start_new_session=True, text=True)
    try:
        out, _ = p.communicate(timeout=timeout)
        return p.returncode, out
    except subprocess.TimeoutExpired:
        try:
            os.killpg(p.pid, signal.SIGKILL)
        except ProcessLookupError:
            pass
        p.communicate()
        return 'timeout', ''


def judge(module, idx, tier, checks_override=None, skip_tests=False):
    src = open(os.path.join(REPO, 'pytenet', module + '.py')).read()
    msrc, applied = mutate(src, idx)
    res = {'module': module, 'site': idx, 'line': applied[0], 'mutation': applied[1]}
    d = tempfile.mkdtemp(prefix='ptmut.', dir='/tmp')
    try:
        shutil.copytree(os.path.join(REPO, 'pytenet'), os.path.join(d, 'pytenet'))
        shutil.copytree(os.path.join(REPO, 'test'), os.path.join(d, 'test'))
        with open(os.path.join(d, 'pytenet', module + '.py'), 'w') as f:
            f.write(msrc)
        env = dict(os.environ, PYTHONPATH=d, OMP_NUM_THREADS='1', OPENBLAS_NUM_THREADS='1', MKL_NUM_THREADS='1', PYTHONHASHSEED='0')
        tfile, checks = MAP[module]
        if checks_override:
            checks = checks_override
        py = '/venv/bin/python'
        rc, out = (0, '') if skip_tests else run([py, '-m', 'pytest', '-q', '-x', '-p', 'no:cacheprovider', '--timeout=300', 'test/' + tfile], d, env, 900)
        if rc != 0:
            res['verdict'] = 'tests'; res['by'] = tfile + (' (timeout)' if rc == 'timeout' else '')
            return res
        rc, out = (0, '') if skip_tests else run([py, '-m', 'pytest', '-q', '-p', 'no:cacheprovider', '--timeout=300'], d, env, 1800)
        if rc != 0:
            failed = [l for l in out.splitlines() if l.startswith('FAILED')]
            if rc != 'timeout' and len(failed) == 1 and 'test_eigh_krylov' in failed[0] and module != 'krylov':
                pass  # the flaky repository test (fails ~2% of runs on the unchanged tree)
            else:
                res['verdict'] = 'tests'; res['by'] = 'full suite' + (' (timeout)' if rc == 'timeout' else ': ' + '; '.join(f[:80] for f in failed[:2]))
                return res
        env2 = dict(env, PYTENET_PATH=d, VERIF_EVIDENCE_DIR=os.path.join(d, 'ev'), VERIF_REPLAY_DIR=os.path.join(d, 'rp'))
        env2.pop('PYTHONPATH')
        res['checks'] = {}
        for c in checks:
            rc, out = run([os.path.join(HERE, 'run'), c, tier], HERE, env2, 2400)
            res['checks'][c] = rc
            if rc == 1:
                line = [l for l in out.splitlines() if l.startswith('VIOLATION')]
                prev = ''
                ls = out.splitlines()
                for i, l in enumerate(ls):
                    if l.startswith('VIOLATION') and i > 0:
                        prev = ls[i - 1][:200]
                        break
                res['verdict'] = 'check:' + c; res['by'] = prev
                return res
        res['verdict'] = 'survived'
        return res
    finally:
        shutil.rmtree(d, ignore_errors=True)


def main():
    ap = argparse.ArgumentParser()
    ap.add_argument('module')
    ap.add_argument('--n', type=int, default=40)
    ap.add_argument('--seed', type=int, default=1)
    ap.add_argument('--jobs', type=int, default=6)
    ap.add_argument('--tier', default='quick')
    ap.add_argument('--out', default=os.path.join(HERE, 'mutsweep'))
    ap.add_argument('--list', action='store_true')
    ap.add_argument('--sites', default='')
    ap.add_argument('--lines', default='', help='restrict to source lines a-b')
    ap.add_argument('--rejudge-survivors', action='store_true', help='run the checks again on the mutants recorded as survived (tests are not repeated)')
    a = ap.parse_args()
    src = open(os.path.join(REPO, 'pytenet', a.module + '.py')).read()
    sites = enumerate_sites(src)
    if a.lines:
        lo, hi = map(int, a.lines.split('-'))
        sites = [s for s in sites if lo <= s[1] <= hi]
    if a.list:
        for s in sites:
            print(s)
        print(len(sites), 'sites')
        return
    if a.rejudge_survivors:
        pass
    elif a.sites:
        pick = [int(x) for x in a.sites.split(',')]
    else:
        rng = random.Random(a.seed)
        pick = sorted(rng.sample([s[0] for s in sites], min(a.n, len(sites))))
    os.makedirs(a.out, exist_ok=True)
    outp = os.path.join(a.out, a.module + '.jsonl')
    if a.rejudge_survivors:
        last = {}
        for l in open(outp):
            if l.strip():
                r = json.loads(l); last[r['site']] = r['verdict']
        pick = sorted(i for i, v in last.items() if v == 'survived')
        a.sites = ','.join(map(str, pick)) or '-'
    if not a.sites and os.path.exists(outp):
        # sites judged by an earlier run are not repeated
        done = {json.loads(l)['site'] for l in open(outp) if l.strip()}
        pick = [i for i in pick if i not in done]
    tally = {}
    with ThreadPoolExecutor(a.jobs) as ex, open(outp, 'a') as f:
        for r in ex.map(lambda i: judge(a.module, i, a.tier, skip_tests=a.rejudge_survivors), pick):
            f.write(json.dumps(r) + '\n'); f.flush()
            k = r['verdict'].split(':')[0]
            tally[k] = tally.get(k, 0) + 1
            print(f"[{a.module}#{r['site']} line {r['line']}] {r['verdict']:12s} {r['mutation'][:90]}  {r.get('by', '')[:110]}", flush=True)
    print('SUMMARY', a.module, 'sites=%d sampled=%d' % (len(sites), len(pick)), tally)


if __name__ == '__main__':
    main()
