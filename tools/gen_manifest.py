#!/usr/bin/env python3
"""Regenerate /verif/MANIFEST.json from the table below (keeps the file valid at all times)."""
import json
import os

VERIF = os.path.dirname(os.path.dirname(os.path.abspath(__file__)))

# id -> (technique, level text, level note, design ref)
BUILT = {
    'C08': ('Hypothesis random search over (Hermitian MPO, sector state, integrator, step, Krylov iterations); conservation-law and metamorphic (input scaling) oracle against independent dense forms',
            'Exploration: built-in models and random Hermitian MPOs with charges, L 1..5, arbitrary bond profiles, 1..8 local Krylov iterations, 1..4 steps, repeated calls; norm, energy (exact invariants of every '
            'Krylov sub-step), returned norm, dependence on the normalised input only, sector confinement of the dense state, block sparsity, immutability of H and bond monotonicity (single-site) are judged.',
            'dense reach d^L <= 128 (256 thorough); 1e-10 max(1, ||H||)', '4 (C08)'),
    'C09': ('Hypothesis random search over complete manifolds constructed from sector counts; differential oracle scipy expm; round-trip (dt, -dt) oracle for reversibility',
            'Exploration: states on complete manifolds (bond multiplicities min(n_left, n_right)) are evolved with real, imaginary and complex dt by both integrators with exact local exponentials and compared '
            'with expm(-dt n H) psi0; judged where every bond is saturated on one side for all charge blocks (elsewhere projector splitting is provably not exact; counted). Reversibility on full-rank representations.',
            'dense reach d^L <= 128 (256 thorough); |dt| ||H|| n <= 3; scipy.linalg.expm trusted; a failure is attributed to known finding F5 (excluded, counted) only on runs that showed its run-time signature', '4 (C09)'),
    'C10': ('Hypothesis random search over (Hermitian MPO, sector start state, algorithm, sweeps, Lanczos iterations, split tolerance); dense eigvalsh oracle restricted to the charge sector',
            'Exploration: normalisation, state energy = last reported energy, variational bound against the exact sector ground energy, first energy <= start energy, monotone energies (two-site: tol_split = 0), '
            'sector confinement, sparsity, immutability of H, repeated invocation (also after a scaling or a bond-gauge change of the state between the calls), documented default arguments; L = 2 two-site runs from basis product, sparse and generic states must report the smallest eigenvalue reachable from the start vector; on one-sided complete manifolds with enough iterations the run must end in an eigenstate and, for irreducible sector blocks, in the ground energy.',
            'dense reach d^L <= 128 (256 thorough); 1e-9 max(1, ||H||); convergence only where it is a theorem for Krylov-based local solvers; a failing energy clause or an aborted sweep is attributed to known finding F5 (excluded, counted) only on runs that showed its run-time signature', '4 (C10)'),
    'C11': ('exhaustive enumeration of small charge layouts + Hypothesis random search, dense-algebra oracle',
            'Exploration: every charge layout over {0,1,2} up to 3x3 (4x4 thorough) with four entry styles is enumerated, plus '
            'thousands of generated block-sparse matrices up to 12x12; each is judged by reconstruction, isometry, '
            'block-sparsity masks and charge multiplicities computed independently of pytenet. Absence is only shown for the enumerated scope.',
            'float64 with 1e-12 relative tolerance; numpy.linalg used by the oracle is trusted', '4 (C11)'),
    'C01': ('Hypothesis random search over charge-consistent MPS/MPO constructions; independent dense-contraction oracle',
            'Exploration: generated MPS and MPO (L 1..6, d 1..4, constructed charge layouts incl. unsorted/repeated/over-complete/rank-deficient/sector-disjoint, '
            'real/complex/integer entries and integer dtype, constructor fills) in both modes; judged by an independent dense contraction before/after, '
            'isometry of every site tensor, unit norm, bond bounds, sparsity masks, unchanged outer charges and idempotence; repeated after a user-style tensor edit, on nearly canonical inputs (deviation 1e-9..5e-6) and under a power-of-two bond gauge.',
            'dense reach d^L <= 4096; 1e-11 relative tolerance', '4 (C01)'),
    'C02': ('Hypothesis-generated operation histories (shrinkable step lists interpreted against a pool of MPS/MPO, JSON-replayable); entry-wise sparsity / list-length invariant after every step',
            'Exploration: histories of 5..10 (25) steps over a pool of sector-consistent MPS and MPOs of one model family (incl. encoded charge pairs) interleave construction, from_vector, sums, differences, '
            'products, operator application, chains -> graph -> MPO, orthonormalize, compress, merge + split, TDVP and DMRG (both variants, several tolerances) and zero_qnumbers; after every step every pooled '
            'object is checked entry-wise with a harness-side mask (not is_qsparse) and list lengths; outer charges must survive in-place steps on non-zero states; any escaping exception is a violation.',
            'histories are sampled, length <= 25, bonds capped at 40; steps whose documented precondition fails are skipped and counted; DMRG steps that abort with the run-time signature of known finding F5 are skipped and counted', '4 (C02)'),
    'C03': ('Hypothesis random search over expression trees and operand families; differential oracle = same expression on independent dense forms',
            'Exploration: generated expression trees (depth <= 3) over MPS/MPO sums, differences, products, operator application and identity, binary '
            'operations with non-zero boundary charges and operator shifts, sparse-vs-dense matrix form (also after in-place tensor updates between two conversions and under a power-of-two bond gauge), from_vector round trips and merge-after-split; '
            'every result is contracted independently (tensordot) and compared with the expression evaluated on dense operands.',
            'dense reach d^L <= 1024; 1e-11 relative to the product of site-tensor norms', '4 (C03)'),
    'C04': ('Hypothesis random search over path-sharing (bra, operator, ket, density) quadruples; dense-algebra oracle, projection identity for local operators',
            'Exploration: scalars (vdot with conjugation side, norm, operator_average, operator_inner_product, operator_density_average) are compared with dense algebra on '
            'operands constructed to give non-zero values; one-, two- and zero-site effective operators at every position are compared with the projection of the '
            'dense operator between embedded states and tested for Hermiticity; the public left / right transfer steps are combined at every cut, and vdot / norm must not change under a power-of-two bond gauge.',
            'dense reach d^L <= 1024; 1e-11 relative to the product of site-tensor norms', '4 (C04)'),
    'C05': ('exhaustive enumeration of small chain programs + Hypothesis program generation; free-algebra (non-commutative polynomial) oracle with exact Fractions',
            'Exploration, exhaustive for its small scope: every list of <= 2 chains for L <= 3 over three symbols and four coefficients (50 688 programs) plus generated '
            'lists (L <= 8, <= 15 chains, duplicates, cancellations, zero coefficients, charges) are compiled; the graph polynomial (sum over paths) must equal the sum of padded '
            'chains exactly; MPO conversion is judged by node-charge / nid_map / tensor-slice predicates and by the dense matrix of the polynomial under random charge-respecting operator maps.',
            'exact rational arithmetic for dyadic coefficients, 1e-12 relative for arbitrary floats; dense part limited to d^L <= 600', '4 (C05)'),
    'C06': ('Hypothesis random search over (model, L, parameters incl. zeros and sign changes); differential oracle = textbook Hamiltonian built from occupation-number states / spin matrices',
            'Exploration: every built-in lattice model and the linear fermionic operators for L = 1 .. dense reach with independently drawn parameters (zeros, +-1, +-0.5, generic) are compared '
            'with an independently constructed dense reference (dense and sparse matrix form; parameters and coefficient vectors also as NumPy scalars of other widths; the same constructor call repeated after other models were built); Hermiticity, block sparsity of every tensor, the charge selection rule of the dense matrix and the resolving power of the physical charges are judged.',
            'dense reach d^L <= 1024 (2048 thorough); identically-zero operators excluded', '4 (C06)'),
    'C07': ('enumeration of every orbital count in reach for both build paths + Hypothesis over coefficient structures and gauge rotations; Fock-space reference oracle (sparse)',
            'Exploration: spinless L = 1..7 (9 thorough) optimized and 4.. explicit, spin-orbital L = 1..4 (5) optimized and 2..5 (6) explicit, with complex / real / masked / symmetric / zero-padded / '
            'integer / one-body / two-body coefficient tensors, are compared in sparse form with a reference built from occupation-number states; the orbital gauge matrices are judged by the documented recipe '
            'for every pair i and five families of 2x2 unitaries.',
            'reach limited by the 4^L resp. 2^L Fock space; coefficient tensors that vanish identically excluded', '4 (C07)'),
    'C12': ('Hypothesis random search over designed-spectrum block matrices and boundary tolerances; independent dense-SVD oracle',
            'Exploration: generated block-sparse matrices with designed spectra (decaying, degenerate within/across blocks, rank deficient), '
            'tolerances at 0, random and exactly on cumulative weights, plus two-site tensor splits with all three distributions; judged against numpy '
            'dense SVD: isometry, masks, error identity, tolerance bound, ordering, maximality, input immutability.',
            'float64, 1e-12 slack around boundary tolerances; numpy.linalg.svd trusted', '4 (C12)'),
    'C13': ('Hypothesis random search over shaped entanglement spectra and threshold tolerances; dense-vector and dense-Schmidt oracle',
            'Exploration: non-zero MPS with constructed charges and bond weights (fast decay, flat, staircase, product) are compressed with tolerances 0, log-uniform and exactly on a cumulative '
            'Schmidt weight, in both modes, plus pair-product states with exactly degenerate Schmidt multiplets and tolerances inside a multiplet; returned norm and scale bounds, normalisation, canonical form, bond monotonicity, the exact error identity (squared), the sqrt(L tol) bound and the kept '
            'count at the first truncated bond are judged against dense Schmidt values; from_vector error bound likewise.',
            'dense reach d^L <= 4096; exactly-zero states excluded; 1e-10 window around threshold tolerances', '4 (C13)'),
    'C14': ('Hypothesis random search over matrices with Krylov dimension known by construction; algebraic-relation oracle',
            'Exploration: spectra, multiplicities, start-vector supports and iteration counts below/at/above the Krylov dimension are generated; '
            'orthonormality, projected-map identity, Arnoldi relation, sign and size consistency are judged for the leading part.',
            'n <= 14 (24 thorough); 1e-9 tolerance relative to ||A||', '4 (C14)'),
    'C15': ('Hypothesis random search with Krylov dimension known by construction; numpy eigvalsh / scipy expm oracle',
            'Exploration: Ritz bounds, norm preservation, exactness of both exponential branches and of the lowest Ritz value once the Krylov '
            'space is exhausted, Rayleigh-quotient consistency below that point; the map is handed over as a fresh-array, buffer-reusing or strided function, the start vector also with boolean / integer dtype, results are judged after later library calls; one clause is excluded on the listed known finding F5.',
            'n <= 14 (24 thorough); scipy.linalg.expm and numpy eigvalsh trusted; |dt| ||A|| <= 4', '4 (C15)'),
    'C16': ('Hypothesis-generated rewrite histories (step lists interpreted against the graph, shrinkable, JSON-replayable); free-algebra oracle after every step',
            'Exploration: generated consistent layered graphs (parallel / multi-operator / cancelling edges, twin nodes, charges, colliding id schemes) undergo up to 15 (25) '
            'steps of simplify, merge_edges on harness-determined mergeable pairs, renames (fresh ids; clashes must raise and change nothing), add(other) and flip; after each step the polynomial, '
            'is_consistent(), length, size monotonicity of simplify and immutability of the other graph are judged; also on graphs compiled by from_opchains.',
            'histories are sampled (length <= 25); exact Fractions for dyadic coefficients', '4 (C16)'),
    'C17': ('Hypothesis program generation for operator trees and automata (accepting path drawn first); free-algebra oracle + Kronecker-product dense oracle',
            'Exploration: generated tree lists and automata (self loops, parallel edges, dead states, site-dependent active/opics callables, identical terminals) are unfolded; the '
            'graph polynomial must equal the sum of padded trees / of automaton paths (independent DFS); consistency, length, pruning of dead states; dense forms of chains, trees, '
            'graphs (both directions) and of the converted MPO must equal the polynomial evaluated by Kronecker products.',
            'sampled programs, L <= 6; dense part d^L <= 729', '4 (C17)'),
    'C19': ('Hypothesis-generated operation histories with byte-level snapshots and numpy.shares_memory; direct-call and graph-input parts with deep structural snapshots',
            'Exploration: the C02 histories extended by pure queries and by mutations of fresh results; every pooled object except the documented in-place target must be byte-identical after every step, '
            'fresh results must not share memory with any pooled array, operands (including constructor arguments) must survive mutation of the result; decompositions / Krylov routines / graph and MPO constructors are called directly and '
            'their arguments (arrays, chains, trees, automata, graphs, operator maps) compared with deep snapshots.',
            'aliasing through objects the harness does not hold cannot be seen; raw decomposition outputs are not required to be unaliased (the property speaks about returned MPS / MPO / graphs)', '4 (C19)'),
    'C20': ('Hypothesis over (model, L, seed) with three generic parameter draws; SVD-rank oracle with spectral-gap rule; structural bound for chain lists',
            'Exploration: bond dimensions of the chain-, automaton- and optimized-molecular constructions are compared at every cut with the generic operator Schmidt rank '
            '(maximum numerical rank over three independent parameter draws, accepted only with a spectral gap); chain lists: every layer width <= number of distinct non-zero chains; '
            'simplify never increases a layer width and is idempotent.',
            'dense reach d^L <= 256 (1024 thorough); generic = three draws', '4 (C20)'),
    'C18': ('exhaustive enumeration of all bipartite graphs up to 4x4 (5x5 thorough) + Hypothesis graph families; DP / Kuhn / weak-duality oracle',
            'Exploration, exhaustive for its finite scope: every edge set of every partition up to 4x4 (two edge orders; 5x5 in the thorough tier) is judged '
            'against a bitmask-DP optimum; random and adversarial families up to 60x60 are judged by validity predicates, an independent Kuhn matching and Koenig duality.',
            'termination is observed as the call returning (bounded by input size), no time-outs used as verdicts', '4 (C18)'),
}

NOT_YET = 'check not built yet in this revision of /verif (work in progress, see DESIGN.md section 4)'


def main():
    props = [json.loads(l) for l in open(os.path.join(VERIF, 'properties.jsonl'))]
    checks = []
    na = []
    for p in props:
        pid = p['id']
        if pid in BUILT and os.path.exists(os.path.join(VERIF, 'harness', 'props', pid.lower() + '.py')):
            tech, text, note, ref = BUILT[pid]
            checks.append({
                'property_id': pid,
                'quick_cmd': f'./run {pid} quick',
                'thorough_cmd': f'./run {pid} thorough',
                'evidence_file': f'/verif/evidence/{pid}.json',
                'replay_cmd_template': f'./run {pid} --replay {{path}}',
                'engine': 'pbt-harness',
                'level_claimed': {'category': 'exploration', 'text': text, 'design_ref': f'DESIGN.md section {ref}'},
                'level_note': note,
                'technique': tech,
            })
        else:
            na.append({'property_id': pid, 'reason': NOT_YET})
    fixes = []
    try:
        kf = json.load(open(os.path.join(VERIF, 'known_findings.json')))['findings']
        fixes = [f['commit'] for f in kf if f['kind'] == 'fixed' and f.get('commit')]
    except Exception:
        pass
    man = {
        'version': 1,
        'setup_cmd': './setup.sh',
        'hooks': {
            'guard': 'PYTENET_VERIF',
            'enable': 'no hooks or instrumentation were added to /repo: all observation points (tensors, charge lists, graph '
                      'dictionaries, return values) are public state; checks import pytenet from the working tree via PYTHONPATH=/repo',
            'baseline_off_cmd': 'cd /repo && /venv/bin/python -m pytest -ra -q -p no:cacheprovider --timeout=900 --continue-on-collection-errors',
            'source_commits': [],
            'add_only': True,
        },
        'engines': [
            {'name': 'pbt-harness', 'path': 'harness/core.py',
             'serves_properties': [c['property_id'] for c in checks],
             'kind_free_text': 'Hypothesis 6.168 strategies (seeded by VERIF_SEED, no database) + exhaustive enumeration over finite '
                               'scopes, run in up to 16 worker processes; explicit oracles (independent dense contraction, free-algebra '
                               'semantics, Fock-space references, brute-force optima); shrunk failures saved as JSON replays'},
        ],
        'checks': checks,
        'not_applicable': na,
        'notes': 'Fix commits in /repo (genuine defects, see known_findings.json): ' + (', '.join(fixes) if fixes else 'none yet') +
                 '. Exit codes: 0 held, 1 violation (VIOLATION line), 2 harness error (never a VIOLATION line).',
    }
    if not na:
        del man['not_applicable']
    with open(os.path.join(VERIF, 'MANIFEST.json'), 'w') as f:
        json.dump(man, f, indent=1)
    print(f'{len(checks)} checks, {len(na)} not_applicable')


if __name__ == '__main__':
    main()
