#!/bin/bash
# Offline setup: install the property-testing libraries from the local wheelhouse into /verif/.deps.
# Idempotent. pytenet itself is pure Python and is imported from the working tree, so nothing is built.
set -e
HERE="$(cd "$(dirname "${BASH_SOURCE[0]}")" && pwd)"
WH=/opt/veriftools/wheels
mkdir -p "$HERE/.deps"
if [ ! -d "$HERE/.deps/hypothesis" ]; then
  PIP_NO_INDEX=1 /venv/bin/pip install --quiet --no-index --find-links "$WH" --target "$HERE/.deps" hypothesis
fi
if [ ! -d "$HERE/.deps/atheris" ]; then
  PIP_NO_INDEX=1 /venv/bin/pip install --quiet --no-index --find-links "$WH" --target "$HERE/.deps" atheris || echo "atheris not installable (fuzz parts will be skipped)"
fi
PYTHONPATH="$HERE/.deps" /venv/bin/python -c "import hypothesis, numpy, scipy; print('setup ok: hypothesis', hypothesis.__version__, 'numpy', numpy.__version__, 'scipy', scipy.__version__)"
