"""
Free-algebra semantics of operator programs (DESIGN 3.3).

A chain list, tree list, automaton or operator graph denotes a polynomial in non-commuting symbols:
    dict[ tuple(oid_0, ..., oid_{L-1}) -> Fraction ]
Nothing here calls pytenet methods; graphs are read through their public dictionaries
(`nodes`, `edges`, `nid_terminal`, node.eids, edge.nids, edge.opics).
"""
from fractions import Fraction
import numpy as np


def frac(c):
    if isinstance(c, Fraction):
        return c
    if isinstance(c, (int, np.integer)):
        return Fraction(int(c))
    if isinstance(c, (float, np.floating)):
        return Fraction(float(c))       # exact binary value
    if isinstance(c, complex) or isinstance(c, np.complexfloating):
        if c.imag == 0:
            return Fraction(float(c.real))
        raise TypeError('complex coefficients are handled by the float path')
    raise TypeError(type(c))


def padd(p, key, c):
    v = p.get(key, 0) + c
    if v == 0:
        p.pop(key, None)
    else:
        p[key] = v


def poly_sum(*ps):
    out = {}
    for p in ps:
        for k, c in p.items():
            padd(out, k, c)
    return out


def poly_scale(p, a):
    return {k: a * c for k, c in p.items() if a * c != 0}


def poly_reverse(p):
    return {tuple(reversed(k)): c for k, c in p.items()}


def chains_poly(chains, L, oid_identity, conv=frac):
    """chains: iterable of (oids, coeff, istart)."""
    out = {}
    for oids, coeff, istart in chains:
        c = conv(coeff)
        if c == 0:
            continue
        n = len(oids)
        assert istart >= 0 and istart + n <= L
        key = (oid_identity,) * istart + tuple(int(o) for o in oids) + (oid_identity,) * (L - istart - n)
        padd(out, key, c)
    return out


def graph_poly(graph, conv=frac, direction=1):
    """Sum over all paths between the terminal nodes of the product of edge sums."""
    memo = {}
    start = graph.nid_terminal[1 - direction]
    end = graph.nid_terminal[direction]

    def rec(nid):
        if nid == end:
            return {(): conv(1)}
        if nid in memo:
            return memo[nid]
        out = {}
        node = graph.nodes[nid]
        for eid in node.eids[direction]:
            edge = graph.edges[eid]
            sub = rec(edge.nids[direction])
            for oid, c in edge.opics:
                cc = conv(c)
                if cc == 0:
                    continue
                for k, v in sub.items():
                    key = ((int(oid),) + k) if direction == 1 else (k + (int(oid),))
                    padd(out, key, cc * v)
        memo[nid] = out
        return out
    import sys
    sys.setrecursionlimit(max(sys.getrecursionlimit(), 5000))
    return rec(start)


def graph_layers(graph):
    """Node ids per layer by BFS from the left terminal (lists, in discovery order)."""
    layers = [[graph.nid_terminal[0]]]
    while True:
        nxt = []
        for nid in layers[-1]:
            for eid in graph.nodes[nid].eids[1]:
                t = graph.edges[eid].nids[1]
                if t not in nxt:
                    nxt.append(t)
        if not nxt:
            break
        layers.append(nxt)
    return layers


def tree_poly(tree_desc, L, oid_identity, conv=frac):
    """
    tree_desc: {'istart': i, 'root': node}, node = {'q': qnum, 'ch': [[oid, coeff, node], ...]}
    Leaves above the terminal are padded with identities.
    """
    istart = tree_desc['istart']

    def rec(node, remaining):
        if not node['ch']:
            return {(oid_identity,) * remaining: conv(1)}
        out = {}
        for oid, coeff, child in node['ch']:
            assert remaining >= 1
            sub = rec(child, remaining - 1)
            c = conv(coeff)
            for k, v in sub.items():
                padd(out, (int(oid),) + k, c * v)
        return out
    body = rec(tree_desc['root'], L - istart)
    return {(oid_identity,) * istart + k: v for k, v in body.items()}


def automaton_poly(aut, L, conv=frac):
    """
    aut: {'nodes': [[nid, qnum]...], 'edges': [[eid, n0, n1, opics_spec, active_spec]...], 'term': [a, b]}
    opics_spec:  {'const': [[oid, c]...]} or {'by_site': [[[oid, c]...] per site]}
    active_spec: True/False or {'by_site': [bool per site]}
    Sum over all paths of length L from term[0] to term[1].
    """
    out_edges = {}
    for e in aut['edges']:
        out_edges.setdefault(e[1], []).append(e)
    memo = {}

    def active(e, i):
        a = e[4]
        return a['by_site'][i] if isinstance(a, dict) else bool(a)

    def opics(e, i):
        o = e[3]
        return o['by_site'][i] if 'by_site' in o else o['const']

    def rec(nid, i):
        if i == L:
            return {(): conv(1)} if nid == aut['term'][1] else {}
        if (nid, i) in memo:
            return memo[(nid, i)]
        out = {}
        for e in out_edges.get(nid, []):
            if not active(e, i):
                continue
            sub = rec(e[2], i + 1)
            if not sub:
                continue
            for oid, c in opics(e, i):
                cc = conv(c)
                if cc == 0:
                    continue
                for k, v in sub.items():
                    padd(out, (int(oid),) + k, cc * v)
        memo[(nid, i)] = out
        return out
    return rec(aut['term'][0], 0)


def poly_matrix(p, opmap, dim, L):
    """Dense matrix of a polynomial under an operator map (Kronecker products, first site most significant)."""
    N = dim ** L
    out = np.zeros((N, N), dtype=complex)
    for key, c in p.items():
        m = np.identity(1)
        for oid in key:
            m = np.kron(m, opmap[oid])
        out = out + complex(c) * m
    return out


def absconv(c):
    """Coefficient conversion for the magnitude polynomial (sum over paths of products of |coefficients|)."""
    return abs(complex(c)) if not isinstance(c, Fraction) else abs(float(c))


def poly_close(p, q, rtol=1e-12, scale=None):
    """
    Approximate equality for float-coefficient polynomials. Returns (ok, worst key). `scale` should be the
    magnitude of the computation (sum of |coefficient products| over all paths), because cancellations make the
    result arbitrarily smaller than the rounding errors of its summands.
    """
    if scale is None:
        scale = max([abs(v) for v in p.values()] + [abs(v) for v in q.values()] + [0.0])
    worst = None
    for k in set(p) | set(q):
        a = p.get(k, 0); b = q.get(k, 0)
        if abs(a - b) > rtol * max(scale, 1e-300):
            worst = (k, a, b)
            return False, worst
    return True, None


def poly_json(p, limit=12):
    items = sorted(p.items())[:limit]
    return [[list(k), str(v)] for k, v in items]


def graph_integrity(graph):
    """Independent statement of what the library's OpGraph.is_consistent checks (keys, mutual references, sorted operator
    lists, terminal nodes, well-defined node levels from both ends). Returns None or a description of the first problem."""
    for k, node in graph.nodes.items():
        if k != node.nid:
            return f'node key {k} != node id {node.nid}'
        for d in (0, 1):
            for eid in node.eids[d]:
                if eid not in graph.edges:
                    return f'node {k} refers to missing edge {eid}'
                if graph.edges[eid].nids[1 - d] != k:
                    return f'edge {eid} listed by node {k} (direction {d}) does not end there'
    for k, edge in graph.edges.items():
        if k != edge.eid:
            return f'edge key {k} != edge id {edge.eid}'
        if len(edge.nids) != 2:
            return f'edge {k} does not connect two nodes'
        for d in (0, 1):
            if edge.nids[d] not in graph.nodes:
                return f'edge {k} refers to missing node {edge.nids[d]}'
            if k not in graph.nodes[edge.nids[d]].eids[1 - d]:
                return f'node {edge.nids[d]} does not list edge {k}'
        if list(edge.opics) != sorted(edge.opics):
            return f'operator list of edge {k} is not sorted'
    for d in (0, 1):
        t = graph.nid_terminal[d]
        if t not in graph.nodes:
            return f'terminal node {t} missing'
        if graph.nodes[t].eids[d]:
            return f'terminal node {t} has edges pointing outwards'
    for d in (0, 1):
        level = {graph.nid_terminal[d]: 0}
        frontier = [graph.nid_terminal[d]]
        while frontier:
            nxt = []
            for nid in frontier:
                for eid in graph.nodes[nid].eids[1 - d]:
                    t = graph.edges[eid].nids[1 - d]
                    if t in level:
                        if level[t] != level[nid] + 1:
                            return f'node {t} is reached at two different distances from terminal {d}'
                    else:
                        level[t] = level[nid] + 1
                        nxt.append(t)
            frontier = nxt
    return None


def require_consistent(graph, what):
    """The graph passes the library's own consistency check and the independent statement of the same conditions."""
    from core import require
    require(graph.is_consistent(), what + ': graph fails its own consistency check')
    why = graph_integrity(graph)
    require(why is None, what + ': graph structure is broken although is_consistent() accepted it', problem=why)
    # node depths and the length reported by the graph agree with an independent layering (only for graphs without dead ends,
    # where "follow the first connection" reaches the terminal node from everywhere, as the docstring of node_depth assumes)
    t0, t1 = graph.nid_terminal
    if all((n.eids[0] or k == t0) and (n.eids[1] or k == t1) for k, n in graph.nodes.items()):
        layers = graph_layers(graph)
        Lg = len(layers) - 1
        require(graph.length == Lg, what + ': length differs from the number of layers', got=graph.length, want=Lg)
        for l, nids in enumerate(layers):
            for nid in nids:
                d0 = graph.node_depth(nid, 0); d1 = graph.node_depth(nid, 1)
                require(d0 == l and d1 == Lg - l, what + ': node_depth differs from the layer of the node', nid=nid, layer=l, length=Lg, depth_left=d0, depth_right=d1)
