"""
Hermitian Hamiltonians and matching states for the TDVP / DMRG properties (C08, C09, C10) and the
operation histories (C02, C19).
"""
import copy
import numpy as np
from hypothesis import strategies as st

import pytenet as ptn
from gen_qn import mpo_desc, mps_desc, hermitian_mpo_from, build_mps, _pref_order
from oracle_dense import mpo_to_mat, mps_to_vec, basis_charges

MODELS = ['xxz', 'random', 'ising', 'xxz1', 'bose', 'fermi_hubbard', 'random', 'molecular', 'spin_molecular']


@st.composite
def ham_desc(draw, Lmin=1, Lmax=5, dense_cap=256, models=MODELS):
    m = draw(st.sampled_from(models))
    if m == 'random':
        op = draw(mpo_desc(Lmin=Lmin, Lmax=Lmax, dmin=2, dmax=3, Dmax=3, styles=['complex', 'complex', 'real'], zero_shift=True, dense_cap=dense_cap))
        return {'kind': 'random', 'op': op, 'L': len(op['qD']) - 1, 'd': len(op['qd'])}
    d = {'ising': 2, 'xxz': 2, 'xxz1': 3, 'fermi_hubbard': 4, 'molecular': 2, 'spin_molecular': 4}.get(m)
    h = {'kind': 'model', 'model': m}
    if m in ('molecular', 'spin_molecular'):
        # Hermitian molecular Hamiltonians: hermitian one-body, real symmetric two-body coefficients
        lo = 2 if m == 'spin_molecular' else 1
        hi = min(Lmax, 3 if m == 'spin_molecular' else 5)
        h['optimize'] = draw(st.booleans())
        if m == 'molecular' and not h['optimize']:
            lo = 4
        Ls = [l for l in range(max(lo, Lmin), hi + 1) if d ** l <= dense_cap]
        if not Ls:
            h['optimize'] = True
            Ls = [l for l in range(max(1, Lmin), hi + 1) if d ** l <= dense_cap] or [max(1, Lmin)]
        h['L'] = draw(st.sampled_from(Ls[::-1]))
        h['seed'] = draw(st.integers(0, 10**6))
        h['d'] = d
        h['params'] = []
        return h
    if m == 'bose':
        d = draw(st.sampled_from([2, 3, 4])); h['d'] = d
    Lcap = Lmax
    while Lcap > Lmin and d ** Lcap > dense_cap:
        Lcap -= 1
    h['L'] = draw(st.sampled_from(_pref_order(Lmin, max(Lmin, Lcap))))
    # generic non-zero parameters (zeros are C06's business; a vanishing Hamiltonian makes the dynamics trivial)
    h['params'] = [draw(st.sampled_from([1.0, -1.0, 0.5, 0.7, -1.3, 0.3])) for _ in range(3)]
    h['d'] = d
    return h


def build_ham(h):
    if h['kind'] == 'random':
        return hermitian_mpo_from(h['op'])
    m = h['model']; L = h['L']; p = h['params']
    if m == 'ising':
        return ptn.ising_mpo(L, *p)
    if m == 'xxz':
        return ptn.heisenberg_xxz_mpo(L, *p)
    if m == 'xxz1':
        return ptn.heisenberg_xxz_spin1_mpo(L, *p)
    if m == 'bose':
        return ptn.bose_hubbard_mpo(h['d'], L, *p)
    if m == 'fermi_hubbard':
        return ptn.fermi_hubbard_mpo(L, *p)
    if m in ('molecular', 'spin_molecular'):
        from props.c07 import coefficients
        t, v = coefficients(L, 'symmetric', h['seed'])
        if m == 'molecular':
            return ptn.molecular_hamiltonian_mpo(t, v, optimize=h['optimize'])
        return ptn.spin_molecular_hamiltonian_mpo(t, v, optimize=h['optimize'])
    raise ValueError(m)


def ham_qd(h):
    """Physical charges of the Hamiltonian (without building it)."""
    if h['kind'] == 'random':
        return list(h['op']['qd'])
    m = h['model']
    if m == 'ising':
        return [0, 0]
    if m == 'xxz':
        return [1, -1]
    if m == 'xxz1':
        return [1, 0, -1]
    if m == 'bose':
        return list(range(h['d']))
    if m in ('fermi_hubbard', 'spin_molecular'):
        return [(a << 16) + b for a, b in zip([0, 1, 1, 2], [0, -1, 1, 0])]
    if m == 'molecular':
        return [0, 1]
    raise ValueError(m)


def dense_ham(H):
    return np.asarray(mpo_to_mat([np.asarray(a, dtype=complex) for a in H.A]))


def dense_state(psi):
    return np.asarray(mps_to_vec([np.asarray(a, dtype=complex) for a in psi.A]))


@st.composite
def ham_and_state(draw, Lmin=1, Lmax=5, dense_cap=256, Dmax=4, models=MODELS, styles=('complex', 'complex', 'real')):
    h = draw(ham_desc(Lmin=Lmin, Lmax=Lmax, dense_cap=dense_cap, models=models))
    qd = ham_qd(h)
    psi = draw(mps_desc(Lmin=h['L'], Lmax=h['L'], qd=qd, q0=draw(st.sampled_from([0, 0, 0, 1, -2])), Dmax=Dmax, styles=list(styles), disjoint_prob=0, junk=False,
                        dense_cap=10**9))
    sc = draw(st.sampled_from([None, None, None, 1e-3, 50.0]))
    if sc is not None:
        psi['scale'] = sc
    return {'ham': h, 'psi': psi}


# --------------------------------------------------------------------------------------
# complete manifolds


def complete_manifold(qd, L, path):
    """
    Bond charge lists such that the tensors parametrise every vector of the sector reached by `path`
    (a list of L physical indices): bond i carries each charge q with multiplicity min(n_left(q), n_right(q)).
    Returns (qD, one_sided) where one_sided[i] tells whether bond i is saturated on one side for all charges.
    """
    qd = [int(q) for q in qd]
    Q = sum(qd[s] for s in path)
    left = [{0: 1}]
    for _ in range(L):
        nxt = {}
        for q, n in left[-1].items():
            for s in qd:
                nxt[q + s] = nxt.get(q + s, 0) + n
        left.append(nxt)
    qD = []
    one_sided = []
    for i in range(L + 1):
        right = left[L - i]       # counts of right blocks of length L-i by their own charge
        cs = []
        le = ge = True
        for q in sorted(left[i]):
            nl = left[i][q]; nr = right.get(Q - q, 0)
            if nr == 0:
                continue
            cs += [q] * min(nl, nr)
            if nl > nr:
                le = False
            if nl < nr:
                ge = False
        qD.append(cs)
        one_sided.append(le or ge)
    return qD, one_sided


@st.composite
def complete_case(draw, Lmax=5, dense_cap=128, models=MODELS):
    h = draw(ham_desc(Lmin=1, Lmax=Lmax, dense_cap=dense_cap, models=models))
    qd = ham_qd(h)
    L = h['L']
    path = draw(st.lists(st.integers(0, len(qd) - 1), min_size=L, max_size=L))
    qD, one_sided = complete_manifold(qd, L, path)
    shift = draw(st.sampled_from([0, 0, 0, 3, -1]))
    qD = [[q + shift for q in qs] for qs in qD]
    psi = {'qd': [int(q) for q in qd], 'qD': qD, 'seed': draw(st.integers(0, 2**31 - 1)), 'style': draw(st.sampled_from(['complex', 'complex', 'real']))}
    return {'ham': h, 'psi': psi, 'one_sided': [bool(x) for x in one_sided]}


def sector_mask(qd, L, total):
    q = basis_charges(np.asarray(qd, dtype=np.int64), L)
    return q == total


def gauge_edit(psi, seed):
    """User-style gauge change that leaves the state unchanged: a positive diagonal matrix g on one interior bond,
    A[b-1] <- A[b-1] g, A[b] <- g^-1 A[b] (diagonal, so the block sparsity is kept; entries 2^k, k in -2..2, so the edit is exact
    in floating point). Afterwards the tensors next to the bond are no longer isometries. Returns False if there is no interior bond."""
    L = len(psi.A)
    if L < 2:
        return False
    rng = np.random.default_rng(seed)
    b = 1 + int(rng.integers(0, L - 1))
    g = 2.0 ** rng.integers(-2, 3, size=psi.A[b].shape[1])
    psi.A[b - 1] = psi.A[b - 1] * g[None, None, :]
    psi.A[b] = psi.A[b] / g[None, :, None]
    return True


def quench_ham(H, h):
    """User-style parameter quench on the SAME MPO object: the tensors of another Hamiltonian of the same family (other parameters /
    another random draw, same bond layout) are assigned to `H`. Returns False (and leaves H alone) if the layouts differ."""
    h2 = copy.deepcopy(h)
    if h2['kind'] == 'random':
        h2['op'] = dict(h2['op'], seed=h2['op']['seed'] + 1)
    elif h2.get('model') in ('molecular', 'spin_molecular'):
        h2['seed'] = h2['seed'] + 1
    else:
        h2['params'] = [0.6 * p + (0.45 if p >= 0 else -0.45) for p in h2['params']]
    H2 = build_ham(h2)
    if H2.bond_dims != H.bond_dims or any(not np.array_equal(p, q) for p, q in zip(H2.qD, H.qD)):
        return False
    for i in range(len(H.A)):
        H.A[i] = H2.A[i]
    return True
