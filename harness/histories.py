"""
Operation histories over a pool of MPS / MPO objects (serves C02 and C19).

A history is a JSON list of steps; `run_history` interprets it against pytenet. Object selectors are
integers resolved modulo the current pool size; a step whose documented precondition does not hold is
skipped and counted (never a violation). The whole history shrinks as one Hypothesis value and replays
without Hypothesis.

mode 'c02': after every step all pooled objects must satisfy the block-sparsity / list-length invariant and
            in-place steps on non-zero states must keep the outer bond charges.
mode 'c19': additionally byte-level snapshots of every pooled object (except the documented in-place
            target) must be unchanged after every step, results must not share memory with any other pooled
            object, and mutating a fresh result must not alter its operands.
"""
import copy
import numpy as np
from hypothesis import strategies as st

import pytenet as ptn
from core import require, Violation, known_listed
from lanczos_monitor import LanczosMonitor

KEY_F5_ABORT = 'dmrg-abort-after-undetected-lanczos-breakdown'
from gen_qn import mps_desc, mpo_desc, build_mps, build_mpo, _pref_order
from gen_dyn import ham_desc, build_ham, ham_qd
from gen_graph import chain_list, build_chains, random_opmap, OID_ID
from oracle_dense import mps_mask_violation, mpo_mask_violation

MAXBOND = 40
POOL = 6


# --------------------------------------------------------------------------------------
# structural predicates (independent of pytenet)


def check_mps(psi, what):
    L = len(psi.A)
    require(len(psi.qD) == L + 1, what + ': wrong number of bond charge lists', got=len(psi.qD), want=L + 1)
    d = len(psi.qd)
    for i, a in enumerate(psi.A):
        require(a.ndim == 3 and a.shape[0] == d, what + ': tensor has the wrong rank / physical dimension', site=i, shape=a.shape)
        require(len(psi.qD[i]) == a.shape[1] and len(psi.qD[i + 1]) == a.shape[2],
                what + ': charge list length differs from the tensor dimension it labels', site=i, shape=a.shape,
                lens=[len(psi.qD[i]), len(psi.qD[i + 1])])
        mv = mps_mask_violation(a, np.asarray(psi.qd), np.asarray(psi.qD[i]), np.asarray(psi.qD[i + 1]))
        require(mv == 0, what + ': MPS tensor entry violates the additive quantum number rule', site=i, max_entry=mv)
        # the library's own predicate (the one its assertions rely on) agrees, and notices a forbidden entry
        require(bool(ptn.is_qsparse(a, [psi.qd, psi.qD[i], -np.asarray(psi.qD[i + 1])])), what + ': is_qsparse rejects a tensor that obeys the rule', site=i)
        forb = np.argwhere(np.add.outer(np.add.outer(np.asarray(psi.qd), np.asarray(psi.qD[i])), -np.asarray(psi.qD[i + 1])) != 0)
        if len(forb):
            b = np.array(a, dtype=complex); b[tuple(forb[len(forb) // 2])] = 1e-3
            require(not ptn.is_qsparse(b, [psi.qd, psi.qD[i], -np.asarray(psi.qD[i + 1])]), what + ': is_qsparse accepts a tensor with a forbidden non-zero entry', site=i)
    for i in range(L - 1):
        require(psi.A[i].shape[2] == psi.A[i + 1].shape[1], what + ': neighbouring tensors disagree on the bond dimension', bond=i + 1)
    # the object's own accessors report these dimensions
    require(psi.nsites == L, what + ': nsites differs from the number of tensors', got=psi.nsites, want=L)
    if L > 0:
        want = [psi.A[0].shape[1]] + [a.shape[2] for a in psi.A]
        require(list(psi.bond_dims) == want, what + ': bond_dims differs from the tensor dimensions', got=list(psi.bond_dims), want=want)


def check_mpo(op, what):
    L = len(op.A)
    require(len(op.qD) == L + 1, what + ': wrong number of bond charge lists', got=len(op.qD), want=L + 1)
    d = len(op.qd)
    for i, a in enumerate(op.A):
        require(a.ndim == 4 and a.shape[0] == d and a.shape[1] == d, what + ': tensor has the wrong rank / physical dimension', site=i, shape=a.shape)
        require(len(op.qD[i]) == a.shape[2] and len(op.qD[i + 1]) == a.shape[3],
                what + ': charge list length differs from the tensor dimension it labels', site=i, shape=a.shape,
                lens=[len(op.qD[i]), len(op.qD[i + 1])])
        mv = mpo_mask_violation(a, np.asarray(op.qd), np.asarray(op.qD[i]), np.asarray(op.qD[i + 1]))
        require(mv == 0, what + ': MPO tensor entry violates the additive quantum number rule', site=i, max_entry=mv)
    require(op.nsites == L, what + ': nsites differs from the number of tensors', got=op.nsites, want=L)
    if L > 0:
        want = [op.A[0].shape[2]] + [a.shape[3] for a in op.A]
        require(list(op.bond_dims) == want, what + ': bond_dims differs from the tensor dimensions', got=list(op.bond_dims), want=want)


def mps_norm_info(psi):
    """(norm, product of tensor norms) by an independent transfer-matrix contraction."""
    E = np.ones((1, 1), dtype=complex)
    prod = 1.0
    for a in psi.A:
        a = np.asarray(a, dtype=complex)
        E = np.einsum('ab,sac,sbd->cd', E, a, a.conj())
        prod *= float(np.linalg.norm(a))
    n2 = float(np.real(np.trace(E)))
    return float(np.sqrt(max(n2, 0.0))), prod


def well_nonzero(psi):
    n, prod = mps_norm_info(psi)
    return np.isfinite(n) and prod > 0 and n > 1e-6 * prod


def maxbond(obj):
    ax = 1 if obj.A[0].ndim == 3 else 2
    return max([a.shape[ax] for a in obj.A] + [obj.A[-1].shape[ax + 1]])


# --------------------------------------------------------------------------------------
# snapshots (c19)


def snap_arr(a):
    a = np.asarray(a)
    return (a.dtype.str, a.shape, a.tobytes())


def snapshot(obj):
    return (snap_arr(obj.qd), tuple(snap_arr(q) for q in obj.qD), tuple(snap_arr(a) for a in obj.A))


def arrays_of(obj):
    out = [obj.qd] if isinstance(obj.qd, np.ndarray) else []
    out += [q for q in obj.qD if isinstance(q, np.ndarray)]
    out += [a for a in obj.A if isinstance(a, np.ndarray)]
    return out


def shares_memory(a, b):
    for x in arrays_of(a):
        for y in arrays_of(b):
            if x.size and y.size and np.shares_memory(x, y):
                return True
    return False


# --------------------------------------------------------------------------------------
# the interpreter


class World:
    def __init__(self, case, rec, mode):
        self.case = case; self.rec = rec; self.mode = mode
        self.fam = case['family']
        self.L = self.fam['L']
        self.qd = ham_qd(self.fam)
        self.H = build_ham(self.fam)
        self.mps = []       # list of MPS
        self.mpo = []       # list of (MPO, hermitian_zero_shift)
        self.kinds_on = {}  # id(obj) -> set of rule kinds applied to it
        self.add_mpo(self.H, True)
        for d in case['init_mps']:
            self.add_mps(build_mps(d))
        for d in case['init_mpo']:
            self.add_mpo(build_mpo(d), False)
        self.reduced = False
        self.fv_then_inplace = False

    def add_mps(self, p):
        self.mps.append(p)
        if len(self.mps) > POOL:
            self.mps.pop(1)

    def add_mpo(self, o, herm):
        self.mpo.append((o, herm))
        if len(self.mpo) > POOL:
            self.mpo.pop(1)

    def all_objects(self):
        return [('mps%d' % i, p) for i, p in enumerate(self.mps)] + [('mpo%d' % i, o) for i, (o, _) in enumerate(self.mpo)]

    def invariant(self, after):
        for name, o in self.all_objects():
            if o.A[0].ndim == 3:
                check_mps(o, f'after {after}: {name}')
            else:
                check_mpo(o, f'after {after}: {name}')

    def same_qd(self, a, b):
        return np.array_equal(np.asarray(a.qd), np.asarray(b.qd))

    def note(self, obj, kind):
        self.kinds_on.setdefault(id(obj), set()).add(kind)


def run_history(case, rec, mode):
    w = World(case, rec, mode)
    w.invariant('construction')
    executed = 0
    kinds = []
    nontrivial_c19 = False
    for step in case['steps']:
        kind = step[0]
        before = None
        if mode == 'c19':
            before = [(name, o, snapshot(o)) for name, o in w.all_objects()]
        target = None          # the documented in-place target (object)
        result = None          # freshly created object
        operands = []
        L = w.L
        try_label = kind

        def pick_mps(k):
            return w.mps[k % len(w.mps)] if w.mps else None

        def pick_mpo(k):
            return w.mpo[k % len(w.mpo)]

        def name_of(o):
            for name, x in w.all_objects():
                if x is o:
                    return name
            return None

        if kind == 'new_mps':
            result = build_mps(step[1])
            w.add_mps(result)
        elif kind == 'new_mpo':
            result = build_mpo(step[1])
            w.add_mpo(result, False)
        elif kind in ('ctor_mps', 'ctor_mpo'):
            # the public constructors with a scalar fill value or random entries (they mask the entries by the charges)
            dsc = step[1]
            fill = [1.0, 2, 0.5 - 1j, 'random', 0.0, -3, 'default', 'random_default_rng'][step[2] % 8]
            if fill == 'default':
                kw = {}                                   # documented default fill = 0.0
            elif fill == 'random_default_rng':
                kw = dict(fill='random')                  # documented default rng = None (a fresh generator)
            else:
                kw = dict(fill=fill)
                if fill == 'random':
                    kw['rng'] = np.random.default_rng(dsc['seed'])
            if fill == 'random_default_rng':
                # entries from an unseeded generator: only the value-independent structure is judged and the object does not enter the
                # pool, so that everything that follows stays a pure function of the case descriptor
                if kind == 'ctor_mps':
                    check_mps(ptn.MPS(dsc['qd'], dsc['qD'], **kw), 'after ctor_mps (default rng)')
                else:
                    check_mpo(ptn.MPO(dsc['qd'], dsc['qD'], **kw), 'after ctor_mpo (default rng)')
                continue
            if kind == 'ctor_mps':
                result = ptn.MPS(dsc['qd'], dsc['qD'], **kw)
                w.add_mps(result)
            else:
                result = ptn.MPO(dsc['qd'], dsc['qD'], **kw)
                w.add_mpo(result, False)
        elif kind == 'ham':
            result = build_ham(w.fam)
            w.add_mpo(result, True)
        elif kind == 'identity':
            result = ptn.MPO.identity(w.qd, L, dtype={0: complex, 1: float}[step[1] % 2])
            w.add_mpo(result, True)
        elif kind == 'from_vector':
            if any(q != 0 for q in w.qd):
                rec.label('skip_from_vector_charged_family'); continue
            rng = np.random.default_rng(step[1])
            d = len(w.qd)
            v = rng.normal(size=d ** L) + 1j * rng.normal(size=d ** L)
            if (step[1] // 7) % 2:
                # weakly entangled vector (product state plus 1e-3 noise): a positive tolerance then truncates for certain
                pv = np.ones(1, dtype=complex)
                for _ in range(L):
                    pv = np.kron(pv, rng.normal(size=d) + 1j * rng.normal(size=d))
                v = pv + 1e-3 * np.linalg.norm(pv) / np.linalg.norm(v) * v
            if step[2] % 3 == 1:
                v = v.real.copy()
            v0 = v.copy()
            result = ptn.MPS.from_vector(d, L, v, tol=[0, 0, 1e-3, 0.05][step[2] % 4])
            require(v.tobytes() == v0.tobytes(), 'from_vector modified its argument')
            w.add_mps(result)
            w.note(result, 'from_vector')
        elif kind in ('add', 'sub'):
            a = pick_mps(step[1]); b = pick_mps(step[2])
            if a is None or not w.same_qd(a, b) or not (np.array_equal(a.qD[0], b.qD[0]) and np.array_equal(a.qD[-1], b.qD[-1])):
                rec.label('skip_add_incompatible'); continue
            if maxbond(a) + maxbond(b) > MAXBOND:
                rec.label('skip_bond_cap'); continue
            result = (a + b) if kind == 'add' else (a - b)
            operands = [a, b]
            w.add_mps(result)
        elif kind == 'apply':
            o, _ = pick_mpo(step[1]); a = pick_mps(step[2])
            if a is None or not w.same_qd(a, o):
                rec.label('skip_apply_incompatible'); continue
            if maxbond(a) * maxbond(o) > MAXBOND:
                rec.label('skip_bond_cap'); continue
            result = ptn.apply_operator(o, a)
            operands = [o, a]
            w.add_mps(result)
        elif kind in ('mpo_add', 'mpo_sub', 'mpo_mul'):
            (a, ha), (b, hb) = pick_mpo(step[1]), pick_mpo(step[2])
            if not w.same_qd(a, b):
                rec.label('skip_mpo_incompatible'); continue
            if kind != 'mpo_mul' and not (np.array_equal(a.qD[0], b.qD[0]) and np.array_equal(a.qD[-1], b.qD[-1])):
                rec.label('skip_mpo_incompatible'); continue
            if (maxbond(a) * maxbond(b) if kind == 'mpo_mul' else maxbond(a) + maxbond(b)) > MAXBOND:
                rec.label('skip_bond_cap'); continue
            result = {'mpo_add': lambda: a + b, 'mpo_sub': lambda: a - b, 'mpo_mul': lambda: a @ b}[kind]()
            operands = [a, b]
            w.add_mpo(result, bool(kind != 'mpo_mul' and ha and hb))
        elif kind == 'from_opgraph':
            cl = step[1]
            if all(c['coeff'] == 0 for c in cl['chains']):
                continue
            cl = dict(cl)
            cl['chains'] = [c for c in cl['chains'] if c['istart'] + len(c['oids']) <= L]
            if not cl['chains'] or all(c['coeff'] == 0 for c in cl['chains']):
                continue
            graph = ptn.OpGraph.from_opchains(build_chains(cl), L, OID_ID)
            opmap = random_opmap(w.qd, cl['charged'], step[2])
            if not cl['charged']:
                # uncharged chains carry zero quantum numbers: operators must commute with the charge
                qd = np.asarray(w.qd)
                opmap = {k: np.where(qd[:, None] == qd[None, :], m, 0) for k, m in opmap.items()}
            result = ptn.MPO.from_opgraph(w.qd, graph, opmap)
            w.add_mpo(result, False)
        elif kind == 'zero_site':
            # user-style edit: one site tensor of a pooled MPS or MPO (never the family Hamiltonian) set to zero - a legal object
            # (the zero state / operator) that sends the block decompositions of later steps into their degenerate branches
            if step[2] % 2 == 0 or len(w.mpo) < 2:
                a = pick_mps(step[1])
                if a is None:
                    continue
                k = step[3] % len(a.A)
                a.A[k] = np.zeros_like(a.A[k])
                target = a
            else:
                idx = 1 + step[1] % (len(w.mpo) - 1)
                o = w.mpo[idx][0]
                k = step[3] % len(o.A)
                o.A[k] = np.zeros_like(o.A[k])
                target = o
        elif kind in ('orth', 'compress', 'zero_q'):
            a = pick_mps(step[1])
            if a is None:
                continue
            target = a
            nz = well_nonzero(a)
            qf, ql = np.array(a.qD[0]).copy(), np.array(a.qD[-1]).copy()
            D0 = list(a.bond_dims)
            if kind == 'orth':
                a.orthonormalize(mode=['left', 'right'][step[2] % 2])
            elif kind == 'compress':
                if not nz:
                    rec.label('skip_compress_zero_state'); continue
                tol = [0.0, 1e-12, 1e-6, 1e-2, 0.2 / L][step[2] % 5]
                a.compress(tol, mode=['left', 'right'][step[3] % 2])
                if any(x < y for x, y in zip(a.bond_dims, D0)):
                    w.reduced = True
            else:
                ret = a.zero_qnumbers()
                require(ret is a, 'zero_qnumbers does not return the object itself')
                require(not np.any(a.qd) and not any(np.any(q) for q in a.qD), 'zero_qnumbers left a non-zero quantum number')
            if kind != 'zero_q' and nz:
                require(np.array_equal(a.qD[0], qf) and np.array_equal(a.qD[-1], ql),
                        kind + ': leading / trailing bond quantum numbers of a non-zero state changed',
                        before=[qf.tolist(), ql.tolist()], after=[np.asarray(a.qD[0]).tolist(), np.asarray(a.qD[-1]).tolist()])
            if 'from_vector' in w.kinds_on.get(id(a), ()) and kind != 'zero_q':
                w.fv_then_inplace = True
            w.note(a, kind)
        elif kind in ('orth_mpo', 'zero_q_mpo'):
            o, herm = pick_mpo(step[1])
            idx = step[1] % len(w.mpo)
            if idx == 0:
                rec.label('skip_keep_hamiltonian'); continue   # the family Hamiltonian stays pristine
            target = o
            if kind == 'orth_mpo':
                o.orthonormalize(mode=['left', 'right'][step[2] % 2])
            else:
                o.zero_qnumbers()
                require(not np.any(o.qd) and not any(np.any(q) for q in o.qD), 'zero_qnumbers left a non-zero quantum number (MPO)')
            w.note(o, kind)
        elif kind == 'split':
            a = pick_mps(step[1])
            if a is None or L < 2:
                continue
            i = step[2] % (L - 1)
            target = a
            Am = ptn.merge_mps_tensor_pair(a.A[i], a.A[i + 1])
            if not np.any(Am):
                rec.label('skip_split_zero_tensor'); continue
            distr = ['left', 'right', 'sqrt'][step[3] % 3]
            tol = [0.0, 0.0, 1e-8, 1e-2][step[4] % 4]
            a.A[i], a.A[i + 1], a.qD[i + 1] = ptn.split_mps_tensor(Am, a.qd, a.qd, [a.qD[i], a.qD[i + 2]], distr, tol)
            w.note(a, 'split')
        elif kind in ('tdvp', 'dmrg'):
            a = pick_mps(step[1])
            o, herm = pick_mpo(step[2])
            two = bool(step[3] % 2)
            if a is None or not herm or not w.same_qd(a, o) or not well_nonzero(a) or (two and L < 2):
                rec.label('skip_%s_precondition' % kind); continue
            if maxbond(a) * maxbond(o) > 64:
                rec.label('skip_bond_cap'); continue
            target = a
            qf, ql = np.array(a.qD[0]).copy(), np.array(a.qD[-1]).copy()
            iters = 1 + step[4] % 6
            tol_split = [0, 0, 1e-8, 1e-2][step[5] % 4]
            with LanczosMonitor() as mon:
                try:
                    if kind == 'tdvp':
                        dt = [0.05j, -0.1j, 0.02, 0.03 + 0.04j][step[6] % 4]
                        nsteps = 1 + step[7] % 2
                        if two:
                            ptn.integrate_local_twosite(o, a, dt, nsteps, numiter_lanczos=iters, tol_split=tol_split)
                        else:
                            ptn.integrate_local_singlesite(o, a, dt, nsteps, numiter_lanczos=iters)
                    else:
                        sweeps = 1 + step[6] % 2
                        iters = max(2, iters)
                        if two:
                            ptn.calculate_ground_state_local_twosite(o, a, sweeps, numiter_lanczos=iters, tol_split=tol_split)
                        else:
                            ptn.calculate_ground_state_local_singlesite(o, a, sweeps, numiter_lanczos=iters)
                except Exception:
                    # known finding F5 (cascade): a garbage Ritz vector after an undetected Lanczos breakdown zeroes a site tensor
                    # and the next local solve aborts (`assert nrmv > 0`), leaving the state half updated
                    if kind == 'dmrg' and mon.past_breakdown and known_listed('C02' if mode == 'c02' else 'C19', KEY_F5_ABORT):
                        rec.label('dmrg_aborted_after_breakdown')
                        rec.excluded_known += 1
                        w.mps = [m for m in w.mps if m is not a]
                        continue
                    raise
            require(np.array_equal(a.qD[0], qf) and np.array_equal(a.qD[-1], ql),
                    kind + ': leading / trailing bond quantum numbers of the state changed')
            if 'from_vector' in w.kinds_on.get(id(a), ()):
                w.fv_then_inplace = True
            w.note(a, kind + ('2' if two else '1'))
            try_label = kind + ('_twosite' if two else '_singlesite')
        elif kind == 'query':
            # pure queries: nothing may change
            a = pick_mps(step[1]); b = pick_mps(step[2]); (o, _), (o2, _) = pick_mpo(step[3]), pick_mpo(step[4])
            if a is None:
                continue
            q = step[5] % 7
            if q == 0:
                ptn.vdot(a, b) if a.A[-1].shape[2] == b.A[-1].shape[2] == 1 else None
            elif q == 1:
                ptn.norm(a)
            elif q == 2:
                ptn.operator_average(a, o)
            elif q == 3:
                ptn.operator_inner_product(a, o, b)
            elif q == 4:
                ptn.operator_density_average(o, o2)
            elif q == 5:
                if len(w.qd) ** L <= 1024:
                    a.as_vector(); o.as_matrix() if len(w.qd) ** L <= 256 else None
            else:
                if len(w.qd) ** L <= 256:
                    o.as_matrix(sparse_format=True)
                a.bond_dims; o.bond_dims
        else:
            raise ValueError(kind)

        executed += 1
        kinds.append(try_label)
        rec.label('rule_' + try_label)
        w.invariant(kind)

        if mode == 'c19':
            for name_b, obj_b, snap_b in before:
                if obj_b is target:
                    continue
                require(snapshot(obj_b) == snap_b, f'{kind}: an object that is not the documented in-place target was modified', object=name_b, step=step)
            if result is not None:
                for name, o in w.all_objects():
                    if o is result:
                        continue
                    require(not shares_memory(result, o), f'{kind}: the returned object shares memory with another object', other=name, step=step)
                # ... nor with itself: every site tensor and every charge list of a fresh result is its own array (an in-place update
                # of one site must not reach another site)
                parts = list(result.A) + list(result.qD) + [result.qd]
                for i in range(len(parts)):
                    for j in range(i + 1, len(parts)):
                        if isinstance(parts[i], np.ndarray) and isinstance(parts[j], np.ndarray) and parts[i].size and parts[j].size:
                            require(not np.shares_memory(parts[i], parts[j]), f'{kind}: two arrays of the returned object share memory', i=i, j=j, step=step)
                # mutate the fresh result in place and make sure nothing else changes
                if operands and len(step) > 3 and isinstance(step[-1], int):
                    mk = step[-1] % 6
                    osn = [snapshot(x) for x in operands]
                    try:
                        if mk == 0:
                            result.zero_qnumbers()
                        elif mk == 1:
                            result.A[0] *= 2
                        elif mk == 2:
                            result.A[-1][...] = np.nan
                        elif mk == 3:
                            for q in result.qD:
                                q += 1
                        elif mk == 4 and result.A[0].ndim == 3:
                            result.orthonormalize(mode='left')
                        elif mk == 5:
                            result.qd += 3
                    except Exception:
                        pass   # the mutation itself is not under test
                    for x, s in zip(operands, osn):
                        require(snapshot(x) == s, f'{kind}: mutating the result (mutation {mk}) altered an operand', step=step)
                    # discard the mutated object
                    if result in w.mps:
                        w.mps = [m for m in w.mps if m is not result]
                    w.mpo = [(m, h) for (m, h) in w.mpo if m is not result]
                    rec.label('mutation_%d' % mk)
                    nontrivial_c19 = True

    rec.label('steps=%d' % min(executed, 12))
    charged = any(q != 0 for q in w.qd)
    multi = any(len(v) >= 2 for v in w.kinds_on.values())
    if w.reduced:
        rec.label('truncation_reduced_a_bond')
    if w.fv_then_inplace:
        rec.label('from_vector_then_inplace')
    if mode == 'c02':
        rec.nontrivial = bool(executed >= 3 and multi and charged)
    else:
        rec.nontrivial = bool(nontrivial_c19 and executed >= 2)
    return w


# --------------------------------------------------------------------------------------
# strategy


@st.composite
def history(draw, tier, mode):
    fam = draw(ham_desc(Lmin=1, Lmax=4 if tier == 'quick' else 5, dense_cap=256))
    L = fam['L']; qd = ham_qd(fam)
    # all states of a history share the leading bond charge (needed for sums); it is non-zero in a third of the histories
    q0 = draw(st.sampled_from([0, 0, 1, -2, 0, 3, 2**53 + 1, -(2**60)]))     # incl. leading charges beyond 2^53 (a legal U(1) relabelling; int64 sums are exact, float64 ones are not)
    md = mps_desc(Lmin=L, Lmax=L, qd=qd, q0=q0, Dmax=3, styles=['complex', 'complex', 'real'], disjoint_prob=0, junk=False, dense_cap=10**9)
    od0 = mpo_desc(Lmin=L, Lmax=L, qd=qd, Dmax=2, styles=['complex', 'real'], disjoint_prob=0, junk=False, dense_cap=10**9, zero_shift=True)
    # operators: zero total shift, bond charges optionally shifted uniformly (non-zero leading = trailing charge)
    mshift = draw(st.sampled_from([0, 0, 2, -1]))
    od = od0.map(lambda d_: dict(d_, qD=[[q + mshift for q in qs] for qs in d_['qD']]))
    init_mps = [draw(md) for _ in range(draw(st.sampled_from([2, 1, 3])))]
    init_mpo = [draw(od) for _ in range(draw(st.sampled_from([1, 0, 2])))]
    sel = st.integers(0, 7)
    mut = st.integers(0, 5)
    steps = [
        st.tuples(st.just('new_mps'), md),
        st.tuples(st.just('new_mpo'), od),
        st.tuples(st.just('ctor_mps'), md, sel),
        st.tuples(st.just('ctor_mpo'), od, sel),
        st.tuples(st.just('ham')),
        st.tuples(st.just('identity'), sel),
        st.tuples(st.just('from_vector'), st.integers(0, 10**6), sel),
        st.tuples(st.just('from_vector'), st.integers(0, 10**6), st.sampled_from([2, 3, 6, 7])),
        st.tuples(st.sampled_from(['add', 'sub']), sel, sel, mut),
        st.tuples(st.sampled_from(['add', 'sub']), sel, sel, mut),
        st.tuples(st.just('apply'), sel, sel, mut),
        st.tuples(st.sampled_from(['mpo_add', 'mpo_sub', 'mpo_mul']), sel, sel, mut),
        st.tuples(st.just('from_opgraph'), chain_list(Lmax=max(L, 1), nmax=4, for_mpo=True), st.integers(0, 1000)),
        st.tuples(st.just('orth'), sel, sel),
        st.tuples(st.just('orth'), sel, sel),
        st.tuples(st.just('compress'), sel, sel, sel),
        st.tuples(st.just('compress'), sel, sel, sel),
        st.tuples(st.just('zero_q'), sel),
        st.tuples(st.just('zero_site'), sel, sel, sel),
        st.tuples(st.sampled_from(['orth_mpo', 'orth_mpo', 'zero_q_mpo']), sel, sel),
        st.tuples(st.just('split'), sel, sel, sel, sel),
        st.tuples(st.just('tdvp'), sel, st.just(0), sel, sel, sel, sel, sel),
        st.tuples(st.just('tdvp'), sel, sel, sel, sel, sel, sel, sel),
        st.tuples(st.just('dmrg'), sel, st.just(0), sel, sel, sel, sel),
        st.tuples(st.just('dmrg'), sel, sel, sel, sel, sel, sel),
    ]
    if mode == 'c19':
        steps.append(st.tuples(st.just('query'), sel, sel, sel, sel, sel))
        steps.append(st.tuples(st.just('query'), sel, sel, sel, sel, sel))
    nmax = (10 if tier == 'quick' else 25)
    hist = draw(st.lists(st.one_of(*steps), min_size=5, max_size=nmax))

    def tolist(x):
        return [tolist(y) if isinstance(y, tuple) else y for y in x]
    return {'family': fam, 'init_mps': init_mps, 'init_mpo': init_mpo, 'steps': [tolist(s) for s in hist]}
