"""C16  Operator-graph rewrites preserve the denoted operator and graph consistency."""
import copy
import numpy as np
from hypothesis import strategies as st

import pytenet as ptn
from core import Part, require, Violation
from gen_graph import layered_graph, build_graph, graph_desc_poly, chain_list, build_chains, chain_tuples, OID_ID, with_identity_id
from oracle_sym import frac, graph_poly, graph_layers, poly_sum, poly_reverse, chains_poly, poly_close, absconv, require_consistent

ID = 'C16'
RULE = ('cases = histories: a consistent layered graph (length 1..6, layer widths 1..4, every node on a terminal-to-terminal path, parallel edges, '
        'multi-operator edges, cancelling coefficients, node charges, node/edge ids sequential / shuffled / negative / offset and colliding between operands) '
        'followed by up to 15 (thorough 25) steps drawn from {simplify, merge_edges on a pair the harness found mergeable, rename_node_id / rename_edge_id to a '
        'fresh id, rename to an existing id (must raise ValueError and change nothing), add(other graph of the same length), flip}; after every step the '
        'free-algebra polynomial, is_consistent(), the length and (for simplify) node / edge / layer counts are judged. Non-trivial: a step changed the structure '
        'of a graph denoting >= 2 monomials.')
ASSUME = ['graph meaning = sum over paths in the free algebra, exact Fractions for dyadic coefficients (1e-12 relative otherwise)',
          'merge_edges is only called on pairs satisfying its documented preconditions (same base node; same far node, or equal operators + far nodes with a single edge + equal charge)']


def float_conv(c):
    if isinstance(c, (complex, np.complexfloating)):
        return complex(c) if c.imag != 0 else float(c.real)
    return float(c)


def snapshot(g):
    return ({nid: (n.nid, n.qnum, list(n.eids[0]), list(n.eids[1])) for nid, n in g.nodes.items()},
            {eid: (e.eid, list(e.nids), [tuple(x) for x in e.opics]) for eid, e in g.edges.items()},
            list(g.nid_terminal), list(g.nodes.keys()), list(g.edges.keys()))


def shape_of(g):
    return (len(g.nodes), len(g.edges), [len(l) for l in graph_layers(g)])


def mergeable_pairs(g):
    out = []
    for direction in (0, 1):
        for nid, node in g.nodes.items():
            eids = node.eids[1 - direction]
            for a in range(len(eids)):
                for b in range(a + 1, len(eids)):
                    e1 = g.edges[eids[a]]; e2 = g.edges[eids[b]]
                    if e1.nids[direction] != nid or e2.nids[direction] != nid:
                        continue
                    if e1.nids[1 - direction] == e2.nids[1 - direction]:
                        out.append((eids[a], eids[b], direction, 'parallel'))
                        continue
                    if e1.opics != e2.opics:
                        continue
                    n1 = g.nodes[e1.nids[1 - direction]]; n2 = g.nodes[e2.nids[1 - direction]]
                    if len(n1.eids[direction]) != 1 or len(n2.eids[direction]) != 1:
                        continue
                    if n1.qnum != n2.qnum:
                        continue
                    out.append((eids[a], eids[b], direction, 'fuse'))
    return out


def same_poly(got, want, exact, what, scale=None):
    if exact:
        if got != want:
            ks = sorted(k for k in set(got) | set(want) if got.get(k, 0) != want.get(k, 0))
            k = ks[0]
            raise Violation(f'{what}: denoted operator changed; monomial {list(k)}: now {got.get(k, 0)} expected {want.get(k, 0)} ({len(ks)} monomials differ)')
    else:
        ok, worst = poly_close(got, want, scale=scale)
        if not ok:
            raise Violation(f'{what}: denoted operator changed at monomial {list(worst[0])}: now {worst[1]} expected {worst[2]}')


def check_history(case, rec):
    gd = case['graph']
    exact = gd['cstyle'] == 'dyadic' and all(o['cstyle'] == 'dyadic' for o in case['others'])
    conv = frac if exact else float_conv
    g = build_graph(gd)
    L = gd['L']
    require(g.is_consistent(), 'generated graph is inconsistent (generator post-condition)')
    poly = graph_desc_poly(gd, conv)
    scale = float(sum(graph_desc_poly(gd, absconv).values()))
    same_poly(graph_poly(g, conv), poly, exact, 'construction', scale=scale)
    flipped = False
    changed_nontrivially = False
    nsteps = 0
    for step in case['steps']:
        kind = step[0]
        before = snapshot(g)
        shp = shape_of(g) if not flipped else None
        want = poly
        what = kind
        if kind == 'simplify':
            ret = g.simplify()
            require(ret is g, 'simplify does not return the graph itself (chaining)')
            n_nodes, n_edges = len(before[0]), len(before[1])
            require(len(g.nodes) <= n_nodes and len(g.edges) <= n_edges, 'simplify increased the number of nodes or edges',
                    nodes=[n_nodes, len(g.nodes)], edges=[n_edges, len(g.edges)])
        elif kind == 'merge':
            pairs = mergeable_pairs(g)
            if not pairs:
                rec.label('skip_merge_no_pair')
                continue
            e1, e2, direction, mk = pairs[step[1] % len(pairs)]
            g.merge_edges(e1, e2, direction)
            rec.label('merge_' + mk)
            what = f'merge_edges({e1},{e2},{direction}) [{mk}]'
        elif kind == 'rename_node':
            nids = sorted(g.nodes.keys())
            cur = nids[step[1] % len(nids)]
            new = (max(nids) + 1 + step[2] % 5) if step[3] else (min(min(nids), 0) - 1 - step[2] % 5)
            g.rename_node_id(cur, new)
            require(new in g.nodes and cur not in g.nodes and g.nodes[new].nid == new, 'rename_node_id did not rename the node')
            what = f'rename_node_id({cur},{new})'
        elif kind == 'rename_edge':
            eids = sorted(g.edges.keys())
            if not eids:
                continue
            cur = eids[step[1] % len(eids)]
            new = (max(eids) + 1 + step[2] % 5) if step[3] else (min(min(eids), 0) - 1 - step[2] % 5)
            g.rename_edge_id(cur, new)
            require(new in g.edges and cur not in g.edges and g.edges[new].eid == new, 'rename_edge_id did not rename the edge')
            what = f'rename_edge_id({cur},{new})'
        elif kind == 'rename_clash':
            # renaming to an existing id (or from a missing id) must raise ValueError and leave the graph unchanged
            nids = sorted(g.nodes.keys()); eids = sorted(g.edges.keys())
            target = step[1] % 4
            try:
                if target == 0 and len(nids) >= 2:
                    g.rename_node_id(nids[step[2] % len(nids)], nids[(step[2] + 1 + step[3] % (len(nids) - 1)) % len(nids)])
                elif target == 1 and len(eids) >= 2:
                    g.rename_edge_id(eids[step[2] % len(eids)], eids[(step[2] + 1 + step[3] % (len(eids) - 1)) % len(eids)])
                elif target == 2:
                    g.rename_node_id(max(nids) + 7, max(nids) + 8)
                elif target == 3 and eids:
                    g.rename_edge_id(max(eids) + 7, max(eids) + 8)
                else:
                    continue
            except ValueError:
                require(snapshot(g) == before, 'a rejected rename modified the graph')
                rec.label('rename_clash_rejected')
                nsteps += 1
                continue
            raise Violation('renaming to an existing id / from a missing id did not raise ValueError')
        elif kind == 'add':
            od = case['others'][step[1] % len(case['others'])] if case['others'] else None
            if od is None:
                continue
            other = build_graph(od)
            if flipped:
                other.flip()
            osnap = snapshot(other)
            opoly = graph_desc_poly(od, conv)
            if flipped:
                opoly = poly_reverse(opoly)
            ret = g.add(other)
            require(ret is g, 'add does not return the graph itself (chaining)')
            require(snapshot(other) == osnap, 'add modified the other graph')
            want = poly_sum(poly, opoly)
            scale += float(sum(graph_desc_poly(od, absconv).values()))
            if set(before[0].keys()) & set(osnap[0].keys()):
                rec.label('add_colliding_node_ids')
            if set(before[1].keys()) & set(osnap[1].keys()):
                rec.label('add_colliding_edge_ids')
        elif kind == 'flip':
            g.flip()
            flipped = not flipped
            want = poly_reverse(poly)
        else:
            raise ValueError(kind)
        nsteps += 1
        require_consistent(g, what + ' (afterwards)')
        require(g.length == L, what + ': length changed', got=g.length, want=L)
        got = graph_poly(g, conv)
        same_poly(got, want, exact, what, scale=scale)
        poly = want
        if kind == 'simplify' and shp is not None and not flipped:
            shp2 = shape_of(g)
            require(all(a >= b for a, b in zip(shp[2], shp2[2])), 'simplify increased a layer width', before=shp[2], after=shp2[2])
        struct_changed = snapshot(g) != before
        rec.label('step_' + kind)
        if struct_changed:
            rec.label('changed_by_' + kind)
            if len(poly) >= 2:
                changed_nontrivially = True
    rec.label('steps=%d' % min(nsteps, 10))
    rec.nontrivial = bool(changed_nontrivially)


_step = st.one_of(
    st.tuples(st.just('simplify')),
    st.tuples(st.just('merge'), st.integers(0, 50)),
    st.tuples(st.just('merge'), st.integers(0, 50)),
    st.tuples(st.just('rename_node'), st.integers(0, 50), st.integers(0, 50), st.booleans()),
    st.tuples(st.just('rename_edge'), st.integers(0, 50), st.integers(0, 50), st.booleans()),
    st.tuples(st.just('rename_clash'), st.integers(0, 50), st.integers(0, 50), st.integers(0, 50)),
    st.tuples(st.just('add'), st.integers(0, 3)),
    st.tuples(st.just('flip')),
)


@st.composite
def gen_history(draw, tier):
    g = draw(layered_graph(Lmax=5 if tier == 'quick' else 6, wmax=4))
    nother = draw(st.integers(0, 2))
    others = []
    for _ in range(nother):
        others.append(draw(layered_graph(Lfix=g['L'], wmax=3, charged=g['charged'])))
    steps = draw(st.lists(_step, min_size=3, max_size=15 if tier == 'quick' else 25))
    return {'graph': g, 'others': others, 'steps': [list(s) for s in steps]}


# ---- rewrites on graphs produced by the library itself (from_opchains output) -----------------


def check_compiled(case, rec):
    """simplify / flip / add on graphs compiled from chain lists: meaning is the chain polynomial."""
    exact = case['a']['cstyle'] == 'dyadic' and case['b']['cstyle'] == 'dyadic'
    conv = frac if exact else float_conv
    La = case['a']['L']
    ident = [0, 9, -5][case['a']['chains'][0]['istart'] % 3] if case['a']['chains'] else 0
    OID_ID = ident
    descs = [with_identity_id(case['a'], ident), with_identity_id(dict(case['b'], L=La), ident)]
    polys = []; graphs = []; mags = []
    for d in descs:
        chains = [c for c in d['chains'] if c['istart'] + len(c['oids']) <= La]
        if not chains or all(c['coeff'] == 0 for c in chains):
            rec.skip('no usable chain')
            return
        dd = dict(d, chains=chains)
        polys.append(chains_poly(chain_tuples(dd), La, OID_ID, conv))
        mags.append(float(sum(chains_poly(chain_tuples(dd), La, OID_ID, absconv).values())))
        graphs.append(ptn.OpGraph.from_opchains(build_chains(dd), La, OID_ID))
    g, h = graphs
    n0 = (len(g.nodes), len(g.edges))
    g.simplify()
    require_consistent(g, 'simplify (compiled graph)')
    require(g.length == La, 'simplify changed the length')
    require((len(g.nodes), len(g.edges)) <= n0 and len(g.nodes) <= n0[0] and len(g.edges) <= n0[1], 'simplify increased the graph')
    same_poly(graph_poly(g, conv), polys[0], exact, 'simplify(compiled)', scale=mags[0])
    hs = snapshot(h)
    g.add(h)
    require(snapshot(h) == hs, 'add modified the other graph')
    require_consistent(g, 'add (compiled graph)')
    require(g.length == La, 'add changed the length')
    same_poly(graph_poly(g, conv), poly_sum(polys[0], polys[1]), exact, 'add(compiled)', scale=sum(mags))
    g.flip()
    require_consistent(g, 'flip (compiled graph)')
    require(g.length == La, 'flip changed the length')
    same_poly(graph_poly(g, conv), poly_reverse(poly_sum(polys[0], polys[1])), exact, 'flip(compiled)', scale=sum(mags))
    rec.nontrivial = bool(len(polys[0]) >= 2 or len(polys[1]) >= 2)
    rec.label('L=%d' % La)


@st.composite
def gen_compiled(draw, tier):
    a = draw(chain_list(Lmax=6, nmax=8))
    b = draw(chain_list(Lmax=6, nmax=8))
    return {'a': a, 'b': b}


PARTS = [
    Part('histories', check_history, strategy=gen_history, n={'quick': 300, 'thorough': 5000}, workers={'quick': 4, 'thorough': 16}),
    Part('compiled_graphs', check_compiled, strategy=gen_compiled, n={'quick': 150, 'thorough': 2500}, workers={'quick': 2, 'thorough': 16}),
    Part('fuzz_histories', None, fuzz_of='histories', runs={'quick': 0, 'thorough': 20000}, workers={'quick': 0, 'thorough': 8},
         doc='atheris campaign over rewrite histories'),
]
