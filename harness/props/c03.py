"""C03  MPS/MPO arithmetic agrees with dense linear algebra."""
import numpy as np
from hypothesis import strategies as st

import pytenet as ptn
from core import Part, require
from gen_qn import sector_family, build_mps, build_mpo, mps_tensors, mpo_tensors, mpo_desc, FLOAT_STYLES
from oracle_dense import mps_to_vec, mpo_to_mat
from props.c12 import gen_tensor_case, twosite_tensor

ID = 'C03'
RULE = ('cases = (a) expression trees of depth <= 3 over {MPS +/-, MPO +/-, MPO @, apply, identity(scale, dtype)} on 2 states of one charge '
        'sector and up to 3 zero-shift operators with independent bond profiles, L 1..5, d 1..3; (b) binary operations on operands with '
        'non-zero boundary charges / non-zero operator shift; (c) dense vs sparse as_matrix; (d) from_vector(tol=0) round trip, d 1..4, n 1..6; '
        '(e) merge of a zero-tolerance split for the three distributions. Non-trivial: result norm > 1e-8 x natural magnitude (product of site-tensor norms) and an operand with a bond >= 2.')
ASSUME = ['dense reach d^L <= 1024', 'relative tolerance 1e-11 with respect to the natural magnitude of the expression (sums of products of operand norms)']

TOL = 1e-11


def cvec(A):
    return np.asarray(mps_to_vec([np.asarray(a, dtype=complex) for a in A]))


def cmat(A):
    return np.asarray(mpo_to_mat([np.asarray(a, dtype=complex) for a in A]))


def tmag(A):
    """Product of the site-tensor Frobenius norms: upper bound of the dense norm and the natural rounding scale."""
    m = 1.0
    for a in A:
        m *= float(np.linalg.norm(a))
    return m


class Ev:
    """Evaluates an expression both with pytenet objects and with dense arrays."""
    def __init__(self, fam):
        self.fam = fam
        self.qd = fam['mps'][0]['qd'] if fam['mps'] else fam['mpo'][0]['qd']
        self.L = len((fam['mps'] or fam['mpo'])[0]['qD']) - 1
        self.n_ops = 0

    def op(self, e):
        """returns (MPO, dense, magnitude)"""
        k = e[0]
        if k == 'A':
            d = self.fam['mpo'][e[1] % len(self.fam['mpo'])]
            o = build_mpo(d)
            M = cmat(o.A)
            return o, M, tmag(o.A)
        if k == 'id':
            scale = e[1]; dt = {'complex': complex, 'float': float}[e[2]]
            if scale == 1 and dt is complex:
                o = ptn.MPO.identity(self.qd, self.L)         # documented defaults scale = 1, dtype = complex
            elif dt is complex:
                o = ptn.MPO.identity(self.qd, self.L, scale=scale)
            else:
                o = ptn.MPO.identity(self.qd, self.L, scale=scale, dtype=dt)
            M = scale * np.identity(len(self.qd) ** self.L)
            return o, M, np.linalg.norm(M)
        a, Ma, ma = self.op(e[1]); b, Mb, mb = self.op(e[2])
        self.n_ops += 1
        if k == 'add':
            return a + b, Ma + Mb, ma + mb
        if k == 'sub':
            return a - b, Ma - Mb, ma + mb
        if k == 'mul':
            return a @ b, Ma @ Mb, ma * mb
        raise ValueError(k)

    def st(self, e):
        k = e[0]
        if k == 'p':
            d = self.fam['mps'][e[1] % len(self.fam['mps'])]
            p = build_mps(d)
            v = cvec(p.A)
            return p, v, tmag(p.A)
        self.n_ops += 1
        if k == 'apply':
            o, M, mo = self.op(e[1]); p, v, mv = self.st(e[2])
            return ptn.apply_operator(o, p), M @ v, mo * mv
        a, va, ma = self.st(e[1]); b, vb, mb = self.st(e[2])
        if k == 'add':
            return a + b, va + vb, ma + mb
        if k == 'sub':
            return a - b, va - vb, ma + mb
        raise ValueError(k)


def check_expr(case, rec):
    ev = Ev(case['fam'])
    e = case['expr']
    is_state = case['kind'] == 'state'
    obj, ref, mag = (ev.st(e) if is_state else ev.op(e))
    got = cvec(obj.A) if is_state else cmat(obj.A)
    require(got.shape == ref.shape, 'dense form has the wrong shape', got=got.shape, want=ref.shape)
    err = np.linalg.norm(got - ref)
    scale = max(mag, 1e-300)
    require(err <= TOL * scale, 'result of the expression differs from the dense evaluation', err=err, magnitude=mag, expr=e)
    # the library's own dense conversion of the result agrees with the independent contraction
    own = obj.as_vector() if is_state else obj.as_matrix()
    err2 = np.linalg.norm(np.asarray(own) - got)
    require(err2 <= TOL * scale, 'as_vector/as_matrix of the result differs from the independent contraction', err=err2)
    rec.metric('expr_err', err / scale)
    # the dense conversion reflects the *current* tensors: edit one tensor in place and convert again
    k = len(obj.A) // 2
    if np.issubdtype(obj.A[k].dtype, np.inexact):
        obj.A[k] *= 3.0
        own2 = obj.as_vector() if is_state else obj.as_matrix()
        err3 = np.linalg.norm(np.asarray(own2) - 3.0 * got)
        require(err3 <= 3 * TOL * scale, 'dense conversion after an in-place tensor update does not reflect the update (stale result)', err=err3)
    rec.label('L=%d' % ev.L, 'ops=%d' % ev.n_ops, case['kind'])
    bonds = [len(q) for dsc in case['fam']['mps'] + case['fam']['mpo'] for q in dsc['qD']]
    rec.nontrivial = bool(np.linalg.norm(ref) > 1e-8 * scale and max(bonds) >= 2 and ev.n_ops >= 1)


_leaf_op = st.one_of(st.tuples(st.just('A'), st.integers(0, 2)),
                     st.tuples(st.just('A'), st.integers(0, 2)),
                     st.tuples(st.just('id'), st.sampled_from([1, 1.0]), st.sampled_from(['complex', 'float'])))
_op_expr = st.recursive(_leaf_op, lambda ch: st.tuples(st.sampled_from(['add', 'sub', 'mul']), ch, ch), max_leaves=4)
_leaf_st = st.tuples(st.just('p'), st.integers(0, 1))
_st_expr = st.recursive(_leaf_st, lambda ch: st.one_of(st.tuples(st.sampled_from(['add', 'sub']), ch, ch),
                                                       st.tuples(st.just('apply'), _op_expr, ch)), max_leaves=3)


def _tolist(e):
    return [_tolist(x) if isinstance(x, tuple) else x for x in e]


@st.composite
def gen_expr(draw, tier):
    kind = draw(st.sampled_from(['state', 'state', 'op']))
    fam = draw(sector_family(n_mps=2, n_mpo=3, Lmax=4 if tier == 'quick' else 5, dmax=3, Dmax=3, dense_cap=256 if tier == 'quick' else 1024))
    e = draw(_st_expr if kind == 'state' else _op_expr)
    if e[0] in ('A', 'p', 'id'):
        # a bare leaf exercises nothing: wrap it into one operation
        if kind == 'state':
            e = draw(st.sampled_from([('apply', ('A', 0), e), ('add', e, ('p', 1)), ('sub', ('p', 1), e)]))
        else:
            e = draw(st.sampled_from([('mul', e, ('A', 1)), ('add', ('A', 2), e), ('sub', e, ('A', 0))]))
    return {'fam': fam, 'kind': kind, 'expr': _tolist(e)}


# ---- (b) binary operations with non-trivial boundary charges ------------------------------


def check_binary(case, rec):
    fam = case['fam']; opn = case['op']
    if opn in ('mps_add', 'mps_sub'):
        a = build_mps(fam['mps'][0]); b = build_mps(fam['mps'][1])
        va, vb = cvec(a.A), cvec(b.A)
        r = a + b if opn == 'mps_add' else a - b
        ref = va + vb if opn == 'mps_add' else va - vb
        got = cvec(r.A); mag = tmag(a.A) + tmag(b.A)
    elif opn in ('mpo_add', 'mpo_sub'):
        a = build_mpo(fam['mpo'][0]); b = build_mpo(fam['mpo'][1])
        Ma, Mb = cmat(a.A), cmat(b.A)
        r = a + b if opn == 'mpo_add' else a - b
        ref = Ma + Mb if opn == 'mpo_add' else Ma - Mb
        got = cmat(r.A); mag = tmag(a.A) + tmag(b.A)
    elif opn == 'mpo_mul':
        a = build_mpo(fam['mpo'][0]); b = build_mpo(fam['mpo'][1])
        Ma, Mb = cmat(a.A), cmat(b.A)
        r = a @ b; ref = Ma @ Mb; got = cmat(r.A); mag = tmag(a.A) * tmag(b.A)
    else:
        a = build_mpo(fam['mpo'][0]); p = build_mps(fam['mps'][0])
        Ma, vp = cmat(a.A), cvec(p.A)
        r = ptn.apply_operator(a, p); ref = Ma @ vp; got = cvec(r.A); mag = tmag(a.A) * tmag(p.A)
    err = np.linalg.norm(got - ref)
    require(err <= TOL * max(mag, 1e-300), opn + ': result differs from the dense evaluation', err=err, magnitude=mag)
    L = len(r.A)
    rec.label(opn, 'L=%d' % L)
    if any(q[0] != 0 for dsc in fam['mps'] + fam['mpo'] for q in (dsc['qD'][0], dsc['qD'][-1])):
        rec.label('nonzero_boundary_charge')
    bonds = [len(q) for dsc in fam['mps'] + fam['mpo'] for q in dsc['qD']]
    rec.nontrivial = bool(np.linalg.norm(ref) > 1e-8 * mag and max(bonds) >= 2)
    rec.metric('binary_err', err / max(mag, 1e-300))


@st.composite
def gen_binary(draw, tier):
    opn = draw(st.sampled_from(['mps_add', 'mps_sub', 'mpo_add', 'mpo_sub', 'mpo_mul', 'apply']))
    same = opn in ('mpo_add', 'mpo_sub')
    fam = draw(sector_family(n_mps=2, n_mpo=2, Lmax=5, dmax=3, Dmax=4, dense_cap=256 if tier == 'quick' else 1024,
                             zero_shift_ops=False, same_boundary_ops=same, styles=FLOAT_STYLES + ['intdtype']))
    return {'fam': fam, 'op': opn}


# ---- (c) sparse vs dense ----------------------------------------------------------------


def check_sparse(case, rec):
    op = build_mpo(case['obj'])
    A0 = [a.copy() for a in op.A]
    Md = op.as_matrix()
    Ms = op.as_matrix(sparse_format=[True, 1, np.True_][case['obj']['seed'] % 3])
    Md = op.as_matrix(sparse_format=[False, 0, np.False_][case['obj']['seed'] % 3]) if case['obj']['seed'] % 2 else Md
    ref = cmat(A0)
    # rounding scale: product of the site-tensor norms (entries of the matrix may be small through cancellation)
    scale = max(tmag(A0), 1e-300)
    require(Md.shape == ref.shape and tuple(Ms.shape) == ref.shape, 'wrong shape of the matrix form', dense=Md.shape, sparse=Ms.shape)
    e1 = np.max(np.abs(np.asarray(Md) - ref)) if ref.size else 0
    e2 = np.max(np.abs(np.asarray(Ms.todense()) - ref)) if ref.size else 0
    require(e1 <= 1e-13 * scale * ref.shape[0], 'dense matrix form differs from the independent contraction', err=e1)
    require(e2 <= 1e-13 * scale * ref.shape[0], 'sparse matrix form differs from the dense one', err=e2)
    # both forms again after in-place updates of the tensors (multi-step: convert, edit, convert)
    if all(np.issubdtype(a.dtype, np.inexact) for a in op.A):
        op.A[0] *= 2.0
        op.A[-1] *= -1.5
        f = 2.0 * -1.5 if len(op.A) > 1 else 2.0 * -1.5
        Md2 = op.as_matrix(); Ms2 = op.as_matrix(sparse_format=True)
        require(np.max(np.abs(np.asarray(Md2) - f * ref)) <= 1e-12 * scale * ref.shape[0] if ref.size else True,
                'dense matrix form after an in-place tensor update does not reflect the update (stale result)')
        require(np.max(np.abs(np.asarray(Ms2.todense()) - f * ref)) <= 1e-12 * scale * ref.shape[0] if ref.size else True,
                'sparse matrix form after an in-place tensor update does not reflect the update (stale result)')
        # the same operator in another bond gauge: X = diag(2^k) on an interior bond (powers of two, so every product of entries is
        # unchanged bit for bit); the channels of that bond now differ in scale by up to 2^140, the operator does not
        if len(op.A) >= 2:
            rng = np.random.default_rng(case['obj']['seed'] + 5)
            b = 1 + int(rng.integers(0, len(op.A) - 1))
            x = 2.0 ** rng.integers(-70, 71, size=op.A[b].shape[2])
            op.A[b - 1] = op.A[b - 1] * x[None, None, None, :]
            op.A[b] = op.A[b] / x[None, None, :, None]
            Md3 = op.as_matrix(); Ms3 = op.as_matrix(sparse_format=True)
            require(np.max(np.abs(np.asarray(Md3) - f * ref)) <= 1e-12 * scale * ref.shape[0] if ref.size else True,
                    'dense matrix form changes under a power-of-two bond gauge')
            require(np.max(np.abs(np.asarray(Ms3.todense()) - f * ref)) <= 1e-12 * scale * ref.shape[0] if ref.size else True,
                    'sparse matrix form changes under a power-of-two bond gauge (entries dropped relative to another bond channel?)',
                    err=float(np.max(np.abs(np.asarray(Ms3.todense()) - f * ref))) if ref.size else 0.0, scale=scale)
            rec.label('bond_gauge_rescaled')
    rec.label('L=%d' % len(A0))
    rec.nontrivial = bool(np.linalg.norm(ref) > 0 and max(len(q) for q in case['obj']['qD']) >= 2)


@st.composite
def gen_sparse(draw, tier):
    return {'obj': draw(mpo_desc(Lmin=1, Lmax=4 if tier == 'quick' else 5, dmax=3, Dmax=4, styles=FLOAT_STYLES))}


# ---- (d) from_vector --------------------------------------------------------------------


def vec_from(case):
    rng = np.random.default_rng(case['seed'])
    d, n = case['d'], case['n']
    N = d ** n
    kind = case['vkind']
    if kind == 'complex':
        v = rng.normal(size=N) + 1j * rng.normal(size=N)
    elif kind == 'real':
        v = rng.normal(size=N)
    elif kind == 'product':
        v = np.ones(1)
        for _ in range(n):
            v = np.kron(v, rng.normal(size=d) + 1j * rng.normal(size=d))
    elif kind == 'ghz':
        v = np.zeros(N, dtype=complex)
        for s in range(d):
            idx = sum(s * d ** k for k in range(n))
            v[idx] = rng.normal() + 1j * rng.normal()
    elif kind == 'basis':
        v = np.zeros(N); v[rng.integers(0, N)] = 1.5
    elif kind == 'int':
        v = rng.integers(-3, 4, size=N)
        if not np.any(v):
            v[0] = 1
    else:
        raise ValueError(kind)
    return v


def check_from_vector(case, rec):
    v = vec_from(case)
    d, n = case['d'], case['n']
    v0 = v.copy()
    psi = ptn.MPS.from_vector(d, n, v, tol=0) if case['explicit_tol'] else ptn.MPS.from_vector(d, n, v)
    require(v.tobytes() == v0.tobytes(), 'from_vector modified its argument')
    require(psi.nsites == n and len(psi.qd) == d, 'wrong number of sites / physical dimension')
    got = cvec(psi.A)
    nv = np.linalg.norm(v)
    err = np.linalg.norm(got - v)
    require(err <= 1e-12 * max(nv, 1e-300) * max(1, n), 'from_vector with zero tolerance does not reproduce the vector', err=err, norm=nv)
    own = psi.as_vector()
    require(np.linalg.norm(own - got) <= 1e-12 * nv, 'as_vector differs from the independent contraction')
    D = psi.bond_dims
    require(D[0] == 1 and D[-1] == 1, 'outer bond dimensions are not 1', D=D)
    for i in range(n + 1):
        require(D[i] <= min(d ** i, d ** (n - i)), 'bond dimension exceeds the Schmidt bound', D=D)
    rec.label('vkind_' + case['vkind'], 'd=%d' % d, 'n=%d' % n)
    rec.metric('from_vector_err', err / nv)
    rec.nontrivial = bool(n >= 2 and d >= 2 and max(D) >= 2)


@st.composite
def gen_from_vector(draw, tier):
    d = draw(st.sampled_from([2, 3, 4, 1]))
    nmax = 6
    while d ** nmax > 4096:
        nmax -= 1
    n = draw(st.sampled_from([k for k in range(2, nmax + 1)] + [1]))
    return {'d': d, 'n': n, 'seed': draw(st.integers(0, 2**31 - 1)),
            'vkind': draw(st.sampled_from(['complex', 'real', 'product', 'ghz', 'basis', 'int'])),
            'explicit_tol': draw(st.booleans())}


# ---- (e) merge after zero-tolerance split -------------------------------------------------


def check_merge_split(case, rec):
    case = dict(case); case['tolx'] = 0.0
    A = twosite_tensor(case)
    qd0 = np.array(case['qd0']); qd1 = np.array(case['qd1'])
    B0, B1, qb = ptn.split_mps_tensor(A, qd0, qd1, [np.array(case['ql']), np.array(case['qr'])], case['distr'], 0)
    B0c, B1c = B0.copy(), B1.copy()
    M = ptn.merge_mps_tensor_pair(B0, B1)
    require(B0.tobytes() == B0c.tobytes() and B1.tobytes() == B1c.tobytes(), 'merge_mps_tensor_pair modified its arguments')
    require(M.shape == A.shape, 'merged tensor has the wrong shape', got=M.shape, want=A.shape)
    nrm = np.linalg.norm(A)
    err = np.linalg.norm(M - A)
    require(err <= 1e-12 * max(nrm, 1e-300) if nrm > 0 else err == 0, 'merging does not undo a zero-tolerance split', err=err, norm=nrm, distr=case['distr'])
    # merge agrees with an independent contraction
    ref = np.einsum('slk,tkr->stlr', B0, B1).reshape(A.shape)
    require(np.linalg.norm(M - ref) <= 1e-13 * max(nrm, 1), 'merge_mps_tensor_pair differs from an independent contraction')
    rec.label('distr_' + case['distr'])
    rec.nontrivial = bool(nrm > 0 and len(qb) >= 2)


PARTS = [
    Part('expressions', check_expr, strategy=gen_expr, n={'quick': 250, 'thorough': 4000}, workers={'quick': 4, 'thorough': 16}),
    Part('binary_ops', check_binary, strategy=gen_binary, n={'quick': 250, 'thorough': 4000}, workers={'quick': 4, 'thorough': 16}),
    Part('sparse_dense', check_sparse, strategy=gen_sparse, n={'quick': 100, 'thorough': 1500}, workers={'quick': 2, 'thorough': 16}),
    Part('from_vector', check_from_vector, strategy=gen_from_vector, n={'quick': 150, 'thorough': 2000}, workers={'quick': 2, 'thorough': 16}),
    Part('merge_split', check_merge_split, strategy=lambda tier: gen_tensor_case(), n={'quick': 150, 'thorough': 2000}, workers={'quick': 2, 'thorough': 16}),
]
