"""C09  TDVP is exact on a complete manifold and exactly time-reversible."""
import numpy as np
from scipy.linalg import expm
from hypothesis import strategies as st

import pytenet as ptn
from core import Part, require, known_listed, Violation
from lanczos_monitor import LanczosMonitor
from gen_dyn import complete_case, ham_and_state, build_ham, dense_ham, dense_state
from gen_qn import build_mps
from oracle_dense import schmidt_values

ID = 'C09'
KEY_F5 = 'tdvp-local-exponential-past-undetected-lanczos-breakdown'
RULE = ('exactness: (Hermitian MPO as in C08, L 1..5, d 2..4, random state on a complete manifold constructed from the sector counts: bond i carries each charge q with multiplicity '
        'min(n_left(q), n_right(q)); dt imaginary / real / complex with |dt| ||H|| steps <= 3; 1..4 steps; both integrators; local Krylov dimension >= largest local problem). Judged only '
        'where every bond is saturated on one side for all charge blocks simultaneously (see DESIGN C09: otherwise projector splitting is not exact although the manifold is complete). '
        'reversibility: single-site steps with dt then -dt on full-rank representations (zero-tolerance compression first; smallest Schmidt value > 1e-3). '
        'Non-trivial: ||(expm(-dt n H) - 1) psi0|| > 1e-3 and sector dimension >= 3 (exactness); same displacement and a bond >= 2 (reversibility).')
ASSUME = ['known finding F5 at its TDVP call site: a failure (exception or judged clause) is attributed to it - excluded and counted - only when a local Lanczos iteration of the same run returned more vectors than its Krylov space has dimensions (run-time monitor as in C10); runs without that signature are judged in full',
          'dense reach d^L <= 128 (256 thorough); scipy.linalg.expm trusted', 'mixed-saturation complete manifolds are generated but only counted (unjudged)',
          'reversibility is judged on full-rank representations only: for singular bond matrices the projector-splitting step is not a well-defined map']


def max_local_dim(psi, two_site):
    D = psi.bond_dims; d = len(psi.qd)
    if two_site and len(D) >= 3:
        return max(d * d * D[i] * D[i + 2] for i in range(len(D) - 2))
    return max([d * D[i] * D[i + 1] for i in range(len(D) - 1)] + [x * x for x in D])


def dt_of(case, nH):
    kind = case['dtkind']; steps = case['steps']
    mag = 3.0 * case['dtx'] / (nH * steps)
    if kind == 'imag':
        return 1j * mag * case['dtsign']
    if kind == 'real':
        return mag * case['dtsign']
    return mag * np.exp(2j * np.pi * case['dtphase'])


def check_exact(case, rec):
    H = build_ham(case['ham'])
    pdesc = case['psi']
    if case.get('inflate') and len(pdesc['qD']) >= 3:
        # a redundant interior bond: extra copies of charges the bond already carries (the manifold stays complete, the state is the
        # same kind of random element of it; the integrator only right-canonicalises, so a bond with D[i+1] > d D[i] survives into
        # the sweep and the zero-site problems are rectangular)
        qD = [list(q) for q in pdesc['qD']]
        b = 1 + case['inflate'][0] % max(1, (len(qD) - 2) // 2)     # a bond in the left half: limited by its left side, so the extra states survive the right-canonicalisation
        qD[b] = qD[b] + [qD[b][(case['inflate'][1] + k) % len(qD[b])] for k in range(1 + case['inflate'][1] % 3)]
        pdesc = dict(pdesc, qD=qD)
        rec.label('redundant_bond')
    psi = build_mps(pdesc)
    L = len(psi.A); d = len(psi.qd)
    two = case['integrator'] == 'two'
    if two and L < 2:
        rec.skip('two-site integrator needs L >= 2')
        return
    v0 = dense_state(psi)
    n0 = np.linalg.norm(v0)
    if n0 == 0:
        rec.skip('zero state')
        return
    # completeness post-condition of the generator: sector dimension equals the number of free parameters' span
    Hd = dense_ham(H)
    nH = max(np.linalg.norm(Hd, 2), 1e-3)
    dt = dt_of(case, nH)
    steps = case['steps']
    # enough iterations = the largest local dimension the sweep can meet; the bonds of a complete manifold cannot grow
    # (an iteration count far above the vector length makes scipy's eigh_tridiagonal fail on the huge tridiagonal matrix:
    # that is outside "Krylov dimension covers the local problem" and was a generator error of an earlier version)
    iters = max_local_dim(psi, two) + 2
    ref = expm(-dt * steps * Hd) @ (v0 / n0)
    # known finding F5 at its TDVP call site: a failure of this run is attributed to it only if a local Lanczos iteration of this very run
    # returned more vectors than its Krylov space has dimensions (run-time monitor); runs without that signature are judged in full
    with LanczosMonitor() as mon:
        try:
            if two:
                ret = ptn.integrate_local_twosite(H, psi, dt, steps, numiter_lanczos=iters, tol_split=0)
            else:
                ret = ptn.integrate_local_singlesite(H, psi, dt, steps, numiter_lanczos=iters)
        except Exception:
            if mon.past_breakdown and known_listed(ID, KEY_F5):
                rec.label('lanczos_past_breakdown', 'aborted_after_breakdown')
                rec.excluded_known += 1
                return
            raise
    if mon.past_breakdown:
        rec.label('lanczos_past_breakdown')
    try:
        _judge_exact(case, rec, ret, psi, v0, n0, ref, dt, steps, L)
    except Violation:
        if mon.past_breakdown and known_listed(ID, KEY_F5):
            rec.label('failure_attributed_to_known_finding')
            rec.excluded_known += 1
            return
        raise


def _judge_exact(case, rec, ret, psi, v0, n0, ref, dt, steps, L):
    require(abs(float(np.real(ret)) - n0) <= 1e-10 * n0, 'return value is not the norm of the input state', got=float(np.real(ret)), want=float(n0))
    v1 = dense_state(psi)
    require(np.all(np.isfinite(v1)), 'non-finite evolved state')
    rec.label('integrator_' + case['integrator'], 'dt_' + case['dtkind'], 'model_' + (case['ham'].get('model') or 'random'), 'L=%d' % L)
    sector_dim = len(case['psi']['qD']) and int(np.sum(np.abs(v0) > 0))
    if not all(case['one_sided']):
        rec.skip('mixed saturation: projector splitting not exact (unjudged)')
        rec.label('mixed_saturation')
        return
    err = np.linalg.norm(v1 - ref)
    scale = max(np.linalg.norm(ref), 1.0)
    require(err <= 1e-9 * scale, 'TDVP on a complete manifold differs from the exact exponential', err=err, scale=scale, dt=complex(dt), steps=steps, L=L)
    rec.metric('exact_err', err / scale)
    disp = np.linalg.norm(ref - v0 / n0)
    rec.nontrivial = bool(disp > 1e-3 and sector_dim >= 3)


@st.composite
def gen_exact(draw, tier):
    c = draw(complete_case(Lmax=5, dense_cap=128 if tier == 'quick' else 256))
    c['integrator'] = draw(st.sampled_from(['single', 'two']))
    c['dtkind'] = draw(st.sampled_from(['imag', 'real', 'complex']))
    c['dtx'] = draw(st.sampled_from([0.3, 1.0, 0.1, 0.03]))
    c['dtsign'] = draw(st.sampled_from([1, -1]))
    c['dtphase'] = draw(st.floats(0, 1))
    c['steps'] = draw(st.sampled_from([1, 2, 3, 4]))
    c['inflate'] = draw(st.sampled_from([None, None, [0, 1], [1, 0], [2, 2], [1, 4]]))
    if c['inflate'] and len(c['psi']['qD']) >= 4:
        # rectangular zero-site problems only occur in the single-site integrator; a sizeable step makes an inexact local exponential visible
        c['integrator'] = 'single'
        c['dtx'] = draw(st.sampled_from([1.0, 0.3]))
    return c


def check_reversible(case, rec):
    H = build_ham(case['ham'])
    psi = build_mps(case['psi'])
    L = len(psi.A); d = len(psi.qd)
    v_in = dense_state(psi)
    if np.linalg.norm(v_in) == 0:
        rec.skip('zero state')
        return
    # bring the representation to full rank (generator step; C13 judges compress itself)
    psi.compress(0.0, mode='left')
    v0 = dense_state(psi)
    D = psi.bond_dims
    smin = 1.0
    for cut in range(1, L):
        s = schmidt_values(v0, d, L, cut)
        rank = int(np.sum(s > 1e-12))
        if D[cut] != rank:
            rec.skip('representation not full rank after zero-tolerance compression')
            return
        smin = min(smin, float(s[rank - 1]))
    if smin < 1e-3:
        rec.skip('smallest Schmidt value below 1e-3: reversibility ill-conditioned')
        return
    Hd = dense_ham(H)
    nH = max(np.linalg.norm(Hd, 2), 1e-3)
    dt = dt_of(case, nH)
    steps = case['steps']
    iters = max_local_dim(psi, False) + 2
    with LanczosMonitor() as mon:
        try:
            ptn.integrate_local_singlesite(H, psi, dt, steps, numiter_lanczos=iters)
            v1 = dense_state(psi)
            n1 = np.linalg.norm(v1)
            nrm2 = float(np.real(ptn.integrate_local_singlesite(H, psi, -dt, steps, numiter_lanczos=iters)))
        except Exception:
            if mon.past_breakdown and known_listed(ID, KEY_F5):
                rec.label('lanczos_past_breakdown', 'aborted_after_breakdown')
                rec.excluded_known += 1
                return
            raise
    if mon.past_breakdown:
        rec.label('lanczos_past_breakdown')
    v2 = dense_state(psi)
    try:
        _judge_reverse(case, rec, nrm2, n1, v2, v0, smin, dt, steps)
    except Violation:
        if mon.past_breakdown and known_listed(ID, KEY_F5):
            rec.label('failure_attributed_to_known_finding')
            rec.excluded_known += 1
            return
        raise
    rec.label('dt_' + case['dtkind'], 'model_' + (case['ham'].get('model') or 'random'), 'L=%d' % L)
    disp = np.linalg.norm(v1 / max(n1, 1e-300) - v0)
    rec.nontrivial = bool(disp > 1e-3 and max(D) >= 2)


def _judge_reverse(case, rec, nrm2, n1, v2, v0, smin, dt, steps):
    require(abs(nrm2 - n1) <= 1e-10 * max(1.0, n1), 'second call does not report the norm of the forward-evolved state', got=nrm2, want=float(n1))
    if case['dtkind'] == 'imag':
        require(abs(nrm2 - 1) <= 1e-10, 'norm reported by the backward call is not one for imaginary dt', nrm2=nrm2)
    err = np.linalg.norm(nrm2 * v2 - v0)
    require(err <= 1e-9 / smin * max(1.0, nrm2), 'forward steps followed by backward steps do not return the initial state', err=err, smin=smin, nrm2=nrm2,
            dt=complex(dt), steps=steps)
    rec.metric('reverse_err_times_smin', err * smin)


@st.composite
def gen_reversible(draw, tier):
    c = draw(ham_and_state(Lmin=1, Lmax=5, dense_cap=128 if tier == 'quick' else 256, Dmax=4))
    c['dtkind'] = draw(st.sampled_from(['imag', 'real', 'complex']))
    c['dtx'] = draw(st.sampled_from([0.3, 1.0, 0.1, 0.03]))
    c['dtsign'] = draw(st.sampled_from([1, -1]))
    c['dtphase'] = draw(st.floats(0, 1))
    c['steps'] = draw(st.sampled_from([1, 2, 3]))
    return c


PARTS = [
    Part('exactness', check_exact, strategy=gen_exact, n={'quick': 200, 'thorough': 1500}, workers={'quick': 6, 'thorough': 16}),
    Part('reversibility', check_reversible, strategy=gen_reversible, n={'quick': 150, 'thorough': 1500}, workers={'quick': 6, 'thorough': 16}),
]
