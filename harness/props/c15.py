"""C15  Krylov approximations are bounded, and exact once the Krylov space is exhausted."""
import warnings
import numpy as np
from scipy.linalg import expm
from hypothesis import strategies as st

import pytenet as ptn
from core import Part, require, known_listed
from gen_krylov import build, krylov_desc, afunc_of

ID = 'C15'
RULE = ('cases = (Hermitian or general matrix and start vector with Krylov dimension k known by construction, as in C14; '
        'iteration count m in 1..n+3 chosen below / at / above k; time argument dt imaginary, real or complex with |dt| ||A|| <= 4; '
        'both values of the hermitian flag; numeig 1..3). Non-trivial: n >= 3, m >= 2 and ||(expm(dt A) - 1) v|| > 1e-3 ||v||.')
ASSUME = ['float64; bounds judged to 1e-10, exactness to 1e-9, relative to max(1, ||A||) resp. the growth factor exp(max Re(dt lambda)) ||v||',
          'known finding F5 (eigh_krylov past an undetected Lanczos breakdown) is excluded from exactly one clause, see known_findings.json']

KEY_F5 = 'eigh_krylov-past-undetected-breakdown'


def _dt(case, nrmA):
    kind = case['dtkind']; x = float(case['dtx']); ph = float(case['dtphase'])
    mag = 4.0 * x / max(nrmA, 1e-12)
    if kind == 'imag':
        return 1j * mag * (1 if ph < 0.5 else -1)
    if kind == 'real':
        return mag * (1 if ph < 0.5 else -1)
    return mag * np.exp(2j * np.pi * ph)


def check_eigh(case, rec):
    A, v, k, reach = build(case)
    if k < 0:
        rec.skip('real start vector with a nearly vanishing eigen-component: Krylov dimension numerically fuzzy')
        return
    if case.get('real_start'):
        rec.label('real_start_complex_map')
    n = A.shape[0]; m = case['m']; numeig = min(case['numeig'], m)
    s = max(1.0, np.linalg.norm(A, 2))
    lam = np.linalg.eigvalsh(A)
    v0 = v.copy()
    with warnings.catch_warnings():
        warnings.simplefilter('ignore')
        w, U = ptn.eigh_krylov(afunc_of(A, case['seed'] // 5), v, m, numeig)
        alpha, beta, V = ptn.lanczos_iteration(afunc_of(A, case['seed'] // 5), v, m)
    require(v.tobytes() == v0.tobytes(), 'eigh_krylov modified the start vector')
    returned = len(alpha)
    ne = min(numeig, returned)
    require(len(w) == ne and U.shape == (n, ne), 'wrong output sizes', w=len(w), U=U.shape, numeig=numeig, returned=returned)
    require(np.all(np.isfinite(w)) and np.all(np.isfinite(U)), 'non-finite output')
    rq = float(np.vdot(v, A @ v).real / np.vdot(v, v).real)
    require(lam[0] - 1e-10 * s <= w[0], 'lowest Ritz value below the smallest eigenvalue', w0=float(w[0]), lam_min=float(lam[0]))
    require(w[0] <= rq + 1e-10 * s, 'lowest Ritz value above the Rayleigh quotient of the start vector', w0=float(w[0]), rq=rq)
    rec.label('m<k' if m < k else ('m=k' if m == k else 'm>k'))
    rec.label('kind_' + case['kind'])
    if returned < m:
        rec.label('early_termination_returned')
    target = float(np.min(reach.real))
    if m >= k:
        if returned > k:
            rec.label('undetected_breakdown')
            if known_listed(ID, KEY_F5):
                rec.excluded_known += 1
            else:
                require(abs(w[0] - target) <= 1e-9 * s, 'lowest Ritz value is not the smallest reachable eigenvalue '
                        '(iteration continued past an undetected breakdown)', w0=float(w[0]), reachable_min=target, k=k, m=m, returned=returned)
        else:
            require(abs(w[0] - target) <= 1e-9 * s, 'lowest Ritz value is not the smallest reachable eigenvalue',
                    w0=float(w[0]), reachable_min=target, k=k, m=m, returned=returned)
            rec.metric('ritz_exact_err', abs(w[0] - target) / s)
    if m <= k:
        G = U.conj().T @ U
        eo = np.linalg.norm(G - np.identity(ne))
        require(eo <= 1e-9, 'Ritz vectors are not orthonormal', err=eo)
        R = U.conj().T @ A @ U
        er = np.max(np.abs(np.diag(R).real - w))
        require(er <= 1e-9 * s, 'Ritz values are not the Rayleigh quotients of the Ritz vectors', err=er)
        require(np.all(np.diff(w) >= -1e-12 * s), 'Ritz values not ascending')
        rec.metric('ritz_rq_err', er / s)
    rec.nontrivial = bool(n >= 3 and m >= 2)


def check_expm(case, rec):
    A, v, k, reach = build(case)
    if k < 0:
        rec.skip('real start vector with a nearly vanishing eigen-component: Krylov dimension numerically fuzzy')
        return
    if case.get('real_start'):
        rec.label('real_start_complex_map')
    n = A.shape[0]; m = case['m']
    herm_matrix = case['kind'].startswith('herm')
    flag = bool(case['hermitian_flag']) if herm_matrix else False
    nrmA = np.linalg.norm(A, 2)
    dt = _dt(case, nrmA)
    v0 = v.copy()
    with warnings.catch_warnings():
        warnings.simplefilter('ignore')
        # the flag in its legal forms (bool, numpy.bool_, int)
        fform = [flag, np.bool_(flag), int(flag)][case['seed'] % 3]
        if not flag and (case['seed'] // 3) % 2:
            y = ptn.expm_krylov(afunc_of(A, case['seed'] // 5), v, dt, m)      # hermitian=False is the documented default
            rec.label('default_hermitian_argument')
        else:
            y = ptn.expm_krylov(afunc_of(A, case['seed'] // 5), v, dt, m, hermitian=fform)
        # judged after the library has been used again: the result must not live in storage that later calls reuse
        ptn.expm_krylov(lambda x: A @ x, v[::-1].copy(), 0.5 * dt, min(m, 2), hermitian=fform)
    require(v.tobytes() == v0.tobytes(), 'expm_krylov modified the start vector')
    require(y.shape == (n,) and np.all(np.isfinite(y)), 'wrong shape / non-finite output', shape=y.shape)
    nv = np.linalg.norm(v)
    ref = expm(dt * A) @ v
    ev = np.linalg.eigvals(A)
    growth = float(np.exp(np.max((dt * ev).real))) * nv
    rec.label('m<k' if m < k else ('m=k' if m == k else 'm>k'))
    rec.label('dt_' + case['dtkind']); rec.label('flag_hermitian' if flag else 'flag_general'); rec.label('kind_' + case['kind'])
    if flag and case['dtkind'] == 'imag':
        en = abs(np.linalg.norm(y) - nv)
        require(en <= 1e-10 * nv, 'Hermitian Krylov exponential with imaginary time does not preserve the norm', err=en / nv)
        rec.metric('norm_err', en / nv)
    if m >= k:
        err = np.linalg.norm(y - ref)
        require(err <= 1e-9 * max(growth, nv), 'Krylov exponential is not exact although the Krylov space is exhausted',
                err=err, scale=max(growth, nv), m=m, k=k)
        rec.metric('exact_err', err / max(growth, nv))
    rec.nontrivial = bool(n >= 3 and m >= 2 and np.linalg.norm(ref - v) > 1e-3 * nv)


@st.composite
def eigh_case(draw, nmax):
    d = draw(krylov_desc(nmax=nmax, kinds=('herm_real', 'herm_complex', 'herm_real', 'herm_complex', 'herm_kernel'), extra_m=6))
    d['numeig'] = draw(st.sampled_from([1, 1, 2, 3]))
    return d


@st.composite
def expm_case(draw, nmax):
    d = draw(krylov_desc(nmax=nmax, kinds=('herm_real', 'herm_complex', 'herm_complex', 'general', 'general_jordan', 'general_shift', 'herm_kernel'), extra_m=6))
    d['dtkind'] = draw(st.sampled_from(['imag', 'imag', 'real', 'complex']))
    d['dtx'] = draw(st.sampled_from([0.01, 0.1, 0.3, 0.6, 1.0]))
    d['dtphase'] = draw(st.floats(0, 1))
    d['hermitian_flag'] = draw(st.booleans())
    return d


def _nmax(tier):
    return 14 if tier == 'quick' else 24


def check_integer_start(case, rec):
    """Start vectors of integer / boolean dtype (indicator vectors, occupation patterns): a legal vector is a legal vector whatever
    its storage type. m = n, so the Krylov space of a generic start vector is the whole space and no breakdown test is involved:
    the exponential must be exact in both branches, the lowest Ritz value is lambda_min, the Ritz vector is a unit eigenvector."""
    n = case['n']
    rng = np.random.default_rng(case['seed'])
    X = rng.normal(size=(n, n)) + 1j * rng.normal(size=(n, n))
    A = (X + X.conj().T) / 2
    kind = case['vkind']
    if kind == 'bool':
        v = np.zeros(n, dtype=bool); v[rng.permutation(n)[:max(2, n // 2)]] = True
    elif kind == 'int8':
        v = rng.integers(5, 12, size=n).astype(np.int8) * rng.choice([-1, 1], size=n).astype(np.int8)      # sum of squares beyond 127
    elif kind == 'int64_big':
        v = rng.integers(3 * 10**9, 4 * 10**9, size=n).astype(np.int64)                                      # squares beyond 2^63
    elif kind == 'uint8':
        v = rng.integers(10, 16, size=n).astype(np.uint8)
    else:
        v = rng.integers(-3, 4, size=n).astype(np.int64); v[0] = 2
    vf = v.astype(float)
    nv = np.linalg.norm(vf)
    lam, U = np.linalg.eigh(A)
    comp = np.abs(U.conj().T @ vf) / nv
    if np.min(comp) < 1e-3 or np.min(np.diff(lam)) < 1e-2:
        rec.skip('start vector nearly orthogonal to an eigenvector / nearly degenerate spectrum')
        return
    v0 = v.copy()
    nrmA = np.linalg.norm(A, 2)
    with warnings.catch_warnings():
        warnings.simplefilter('ignore')
        w, Ur = ptn.eigh_krylov(lambda x: A @ x, v, n, 1)
        require(v.tobytes() == v0.tobytes() and v.dtype == v0.dtype, 'eigh_krylov modified the start vector')
        require(abs(w[0] - lam[0]) <= 1e-8 * max(1.0, nrmA), 'integer start vector: lowest Ritz value differs from the smallest eigenvalue at m = n',
                got=float(w[0]), want=float(lam[0]), dtype=str(v.dtype))
        require(abs(np.linalg.norm(Ur[:, 0]) - 1) <= 1e-8, 'integer start vector: Ritz vector is not normalised', norm=float(np.linalg.norm(Ur[:, 0])), dtype=str(v.dtype))
        for herm in (True, False):
            dt = [0.7j, 0.3 - 0.4j][case['seed'] % 2] / max(1.0, nrmA)
            y = ptn.expm_krylov(lambda x: A @ x, v, dt, n, hermitian=herm)
            ref = expm(dt * A) @ vf
            require(np.linalg.norm(y - ref) <= 1e-8 * nv, 'integer start vector: Krylov exponential at m = n differs from the exact exponential',
                    err=float(np.linalg.norm(y - ref)), norm=float(nv), dtype=str(v.dtype), hermitian=herm)
    rec.label('vdtype_' + kind, 'n=%d' % n)
    rec.nontrivial = bool(n >= 3)


@st.composite
def gen_integer_start(draw, tier):
    return {'n': draw(st.integers(2, 7)), 'seed': draw(st.integers(0, 2**31 - 1)), 'vkind': draw(st.sampled_from(['bool', 'int8', 'int64_big', 'uint8', 'int64']))}


PARTS = [
    Part('eigh', check_eigh, strategy=lambda tier: eigh_case(_nmax(tier)),
         n={'quick': 600, 'thorough': 15000}, workers={'quick': 4, 'thorough': 16}),
    Part('expm', check_expm, strategy=lambda tier: expm_case(_nmax(tier)),
         n={'quick': 600, 'thorough': 15000}, workers={'quick': 4, 'thorough': 16}),
    Part('integer_start', check_integer_start, strategy=gen_integer_start, n={'quick': 150, 'thorough': 3000}, workers={'quick': 2, 'thorough': 8},
         doc='start vectors of boolean / narrow integer / large integer dtype at m = n'),
]
