"""C05  Operator chains compile to an equivalent operator graph and MPO."""
import itertools
from fractions import Fraction
import numpy as np
from hypothesis import strategies as st

import pytenet as ptn
from core import Part, require, Violation
from gen_graph import (chain_list, build_chains, chain_tuples, physical_charges, random_opmap, layered_graph, build_graph,
                       graph_desc_poly, OID_ID, SYMBOLS, with_identity_id, opmap_with_identity_id, swap_id)
from oracle_sym import frac, chains_poly, graph_poly, graph_layers, poly_matrix, poly_close, poly_json, absconv, require_consistent
from oracle_dense import mpo_to_mat, mpo_mask_violation

ID = 'C05'
RULE = ('cases = chain lists (programs). Exhaustive part: L <= 3, symbols {identity, a, b}, every chain (start, length, symbols, coefficient in '
        '{1,-1,2,1/2}) and every ordered list of <= 2 chains; generated part: L 1..8, 1..12 chains over 3..6 symbols with a charge table, identity id inside '
        'chains, duplicates that accumulate / cancel, zero coefficients, dyadic (exact) or arbitrary float coefficients, consistent or arbitrary interleaved '
        'quantum numbers; third part: generated consistent layered graphs converted to MPOs. Non-trivial: >= 2 distinct padded monomials, or a single '
        'chain with coefficient != 1 (chain parts) / >= 2 monomials and a layer of width >= 2 (graph part).')
ASSUME = ['graph meaning = sum over terminal-to-terminal paths in the free algebra; exact Fraction arithmetic for dyadic coefficients, 1e-12 relative otherwise',
          'lists whose coefficients are all zero are outside the domain (the property requires at least one non-zero coefficient)']


def float_conv(c):
    return complex(c) if isinstance(c, complex) else float(c)


def compare_poly(got, want, exact, what, scale=None):
    if exact:
        if got != want:
            diff = {k: (str(got.get(k, 0)), str(want.get(k, 0))) for k in set(got) | set(want) if got.get(k, 0) != want.get(k, 0)}
            k = sorted(diff)[0]
            raise Violation(f'{what}: denoted operator differs; first differing monomial {list(k)}: graph {diff[k][0]} vs chains {diff[k][1]} '
                            f'({len(diff)} monomials differ)')
    else:
        ok, worst = poly_close(got, want, scale=scale)
        if not ok:
            raise Violation(f'{what}: denoted operator differs at monomial {list(worst[0])}: graph {worst[1]} vs reference {worst[2]}')


def judge_from_opgraph(graph, L, qd, opmap, poly, rec, magsum=None):
    """MPO conversion of a consistent graph: charges from nodes, nid_map, tensor slices, dense meaning."""
    mpo = ptn.MPO.from_opgraph(qd, graph, opmap, compute_nid_map=[True, 1, np.True_][L % 3])
    require(mpo.nsites == L, 'MPO has the wrong number of sites', got=mpo.nsites, want=L)
    require(len(mpo.qD) == L + 1, 'wrong number of bond charge lists')
    nid_map = mpo.nid_map
    require(set(nid_map.keys()) == set(graph.nodes.keys()), 'nid_map does not locate every node',
            missing=sorted(set(graph.nodes.keys()) - set(nid_map.keys())), extra=sorted(set(nid_map.keys()) - set(graph.nodes.keys())))
    require(len(set(nid_map.values())) == len(nid_map), 'two nodes mapped to the same bond index')
    layers = graph_layers(graph)
    lay_of = {nid: l for l, ns in enumerate(layers) for nid in ns}
    at = {}
    for nid, (l, k) in nid_map.items():
        require(lay_of[nid] == l, 'node mapped to the wrong bond', nid=nid, got=l, want=lay_of[nid])
        require(0 <= k < len(mpo.qD[l]), 'node index out of range', nid=nid, l=l, k=k)
        require(int(mpo.qD[l][k]) == int(graph.nodes[nid].qnum), 'bond quantum number differs from the node quantum number',
                nid=nid, got=int(mpo.qD[l][k]), want=int(graph.nodes[nid].qnum))
        at[(l, k)] = nid
    d = len(qd)
    for l in range(L):
        A = mpo.A[l]
        require(A.shape == (d, d, len(layers[l]), len(layers[l + 1])), 'tensor shape does not match the layer widths', site=l, shape=A.shape)
        require(len(mpo.qD[l]) == A.shape[2] and len(mpo.qD[l + 1]) == A.shape[3], 'charge list length differs from the bond dimension')
        ref = np.zeros(A.shape, dtype=complex)
        mag = np.zeros(A.shape)
        for i in range(A.shape[2]):
            nid = at[(l, i)]
            for eid in graph.nodes[nid].eids[1]:
                e = graph.edges[eid]
                j = nid_map[e.nids[1]][1]
                for oid, c in e.opics:
                    ref[:, :, i, j] += c * opmap[oid]
                    mag[:, :, i, j] += abs(c) * np.abs(opmap[oid])
        # rounding scale = sum of the magnitudes of the summands (coefficients such as 1e5 and -1e5 may cancel)
        scale = max(np.max(mag), 1.0)
        require(np.max(np.abs(A - ref)) <= 1e-12 * scale, 'tensor slice differs from the sum of the edges between the mapped nodes', site=l)
        require(mpo_mask_violation(A, mpo.qd, mpo.qD[l], mpo.qD[l + 1]) == 0, 'tensor not block sparse under the node charges', site=l)
    M = mpo_to_mat(mpo.A)
    ref = poly_matrix(poly, opmap, d, L)
    if magsum is None:
        magsum = sum(abs(complex(c)) for c in poly.values())
    mag = magsum * max(1.0, max(np.linalg.norm(m, 2) for m in opmap.values())) ** L
    err = np.linalg.norm(M - ref)
    require(err <= 1e-11 * max(mag, 1.0) * max(1, len(poly)), 'dense matrix of the MPO differs from the denoted operator', err=err, magnitude=mag)
    rec.metric('mpo_dense_err', err / max(mag, 1.0))
    # the optional node map does not influence the tensors
    mpo2 = ptn.MPO.from_opgraph(qd, graph, opmap)
    require(all(a.tobytes() == b.tobytes() for a, b in zip(mpo.A, mpo2.A)) and not hasattr(mpo2, 'nid_map'),
            'compute_nid_map changes the tensors / nid_map present although not requested')


def check_chain_list(case, rec):
    L = case['L']
    exact = case['cstyle'] == 'dyadic'
    conv = frac if exact else float_conv
    # the identity operator may carry any id (`oid_identity` argument): ids 0 and `ident` are swapped throughout
    ident = case.get('identity_id', 0)
    orig = case
    case = with_identity_id(case, ident)
    OID_ID = ident
    chains = build_chains(case)
    if all(c['coeff'] == 0 for c in case['chains']):
        rec.skip('all coefficients zero: outside the domain')
        return
    want = chains_poly(chain_tuples(case), L, OID_ID, conv)
    # "identity-padded chain": `padded` returns a chain of full length starting at site 0 with the same operators, charges and coefficient
    for ch, cd in list(zip(chains, case['chains']))[:3]:
        p = ch.padded(L, OID_ID)
        npr = L - cd['istart'] - len(cd['oids'])
        require(p.istart == 0 and p.length == L and list(p.oids) == [OID_ID] * cd['istart'] + list(ch.oids) + [OID_ID] * npr
                and list(p.qnums) == [0] * cd['istart'] + list(ch.qnums) + [0] * npr and p.coeff == ch.coeff,
                'OpChain.padded does not return the identity-padded chain', istart=p.istart, oids=list(p.oids), qnums=list(p.qnums))
        require(ch.istart == cd['istart'] and ch.length == len(cd['oids']), 'OpChain.padded modified the chain')
    graph = ptn.OpGraph.from_opchains(chains, L, OID_ID)
    require_consistent(graph, 'from_opchains')
    require(graph.length == L, 'graph has the wrong length', got=graph.length, want=L)
    got = graph_poly(graph, conv)
    magsum = float(sum(chains_poly(chain_tuples(case), L, OID_ID, absconv).values()))
    compare_poly(got, want, exact, 'from_opchains', scale=magsum)
    # labels
    nz = [c for c in case['chains'] if c['coeff'] != 0]
    keys = {tuple([OID_ID] * c['istart'] + c['oids'] + [OID_ID] * (L - c['istart'] - len(c['oids']))) for c in nz}
    if len(keys) == 1:
        rec.label('single_monomial')
    if len(want) == 0:
        rec.label('full_cancellation')
    if len(nz) > len(keys):
        rec.label('duplicates')
    if L == 1:
        rec.label('L=1')
    if any(OID_ID in c['oids'] for c in nz):
        rec.label('identity_inside_chain')
    rec.label('coeff_' + case['cstyle'], 'charged' if case['charged'] else 'uncharged', 'identity_id=%d' % ident)
    rec.nontrivial = bool(len(want) >= 2 or (len(nz) == 1 and nz[0]['coeff'] != 1))
    # MPO conversion when the interleaved quantum numbers are the symbols' charges
    consistent = all(q2 - q1 == (SYMBOLS[o] if case['charged'] else 0)
                     for c in orig['chains'] for o, q1, q2 in zip(c['oids'], c['qnums'][:-1], c['qnums'][1:]))
    if consistent and len(want) > 0:
        seed = case.get('opseed', 0)
        qd = physical_charges(case['charged'], seed, L)
        opmap = opmap_with_identity_id(random_opmap(qd, case['charged'], seed + 1), ident)
        judge_from_opgraph(graph, L, qd, opmap, want, rec, magsum=magsum)
        rec.label('mpo_converted')


@st.composite
def gen_chain_list(draw, tier):
    d = draw(chain_list(Lmax=8, nmax=12))
    d['opseed'] = draw(st.integers(0, 1000))
    d['identity_id'] = draw(st.sampled_from([0, 0, 7, -3, 2]))
    return d


# ---- exhaustive small scope ---------------------------------------------------------------

_EX_SYMS = [0, -1, -2]      # the identity and two ids whose CPython hashes collide (hash(-1) == hash(-2) == -2)
_EX_COEFFS = [1.0, -1.0, 2.0, 0.5]


def _all_chains(L):
    out = []
    for n in range(1, L + 1):
        for istart in range(0, L - n + 1):
            for oids in itertools.product(_EX_SYMS, repeat=n):
                for c in _EX_COEFFS:
                    out.append({'oids': list(oids), 'qnums': [0] * (n + 1), 'coeff': c, 'istart': istart})
    return out


_CH_CACHE = {}


def check_exhaustive_chunk(case, rec):
    L = case['L']
    if L not in _CH_CACHE:
        _CH_CACHE[L] = _all_chains(L)
    allc = _CH_CACHE[L]
    first = allc[case['first']]
    seconds = [None] + list(range(len(allc))) if case.get('second') is None else [case['second']]
    if case.get('second') == 'none':
        seconds = [None]
    n = 0; nt = 0; labels = {'single_pair_last_site': 0, 'full_cancellation': 0}
    for j in seconds:
        lst = [first] if j is None else [first, allc[j]]
        ident = 6 if L == 3 else 0        # the identity id is an argument: a non-zero one for the largest scope
        desc = with_identity_id({'L': L, 'chains': lst}, ident)
        want = chains_poly(chain_tuples(desc), L, ident, frac)
        try:
            graph = ptn.OpGraph.from_opchains(build_chains(desc), L, ident)
            require_consistent(graph, 'from_opchains')
            require(graph.length == L, 'graph has the wrong length')
            compare_poly(graph_poly(graph, frac), want, True, 'from_opchains')
        except Exception as e:  # narrow the replay to this program
            narrowed = {'L': L, 'first': case['first'], 'second': 'none' if j is None else j}
            if isinstance(e, Violation):
                raise Violation(str(e) + f' chains={lst}', case=narrowed)
            e.case_override = narrowed
            raise
        n += 1
        if len(want) >= 2 or (j is None and first['coeff'] != 1):
            nt += 1
        if len(want) == 0:
            labels['full_cancellation'] += 1
        if len(want) == 1:
            labels['single_pair_last_site'] += 1
    rec.bulk(n, nt, labels)


def enum_exhaustive(tier):
    for L in (1, 2, 3):
        for i in range(len(_all_chains(L))):
            yield {'L': L, 'first': i, 'second': None}


# ---- layered graphs -> MPO ------------------------------------------------------------------


def check_graph_to_mpo(case, rec):
    g = case['graph']
    exact = g['cstyle'] == 'dyadic'
    conv = frac if exact else float_conv
    graph = build_graph(g)
    require(graph.is_consistent(), 'generated graph is inconsistent (generator post-condition)')
    want = graph_desc_poly(g, conv)
    got = graph_poly(graph, conv)
    magsum = float(sum(graph_desc_poly(g, absconv).values()))
    compare_poly(got, want, exact, 'graph construction', scale=magsum)
    qd = physical_charges(g['charged'], case['opseed'], g['L'])
    opmap = random_opmap(qd, g['charged'], case['opseed'] + 1)
    judge_from_opgraph(graph, g['L'], qd, opmap, want, rec, magsum=magsum)
    widths = {}
    for n in g['nodes']:
        widths[n[2]] = widths.get(n[2], 0) + 1
    if len({(e[1], e[2]) for e in g['edges']}) < len(g['edges']):
        rec.label('parallel_edges')
    if any(len(e[3]) > 1 for e in g['edges']):
        rec.label('multi_operator_edge')
    rec.label('charged' if g['charged'] else 'uncharged', 'L=%d' % g['L'])
    rec.nontrivial = bool(len(want) >= 2 and max(widths.values()) >= 2)


@st.composite
def gen_graph_case(draw, tier):
    return {'graph': draw(layered_graph(Lmax=5 if tier == 'quick' else 6, wmax=4)), 'opseed': draw(st.integers(0, 1000))}


PARTS = [
    Part('exhaustive_small', check_exhaustive_chunk, enum=enum_exhaustive, workers={'quick': 8, 'thorough': 16}, exhaustive=True,
         doc='every list of <= 2 chains for L <= 3 over {identity, a, b} x coefficients {1,-1,2,1/2}'),
    Part('chain_lists', check_chain_list, strategy=gen_chain_list, n={'quick': 400, 'thorough': 8000}, workers={'quick': 4, 'thorough': 16}),
    Part('graph_to_mpo', check_graph_to_mpo, strategy=gen_graph_case, n={'quick': 250, 'thorough': 4000}, workers={'quick': 4, 'thorough': 16}),
    Part('fuzz_chain_lists', None, fuzz_of='chain_lists', runs={'quick': 0, 'thorough': 30000}, workers={'quick': 0, 'thorough': 8},
         doc='atheris campaign over the chain-list grammar, oracle inside the target'),
]
