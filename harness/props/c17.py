"""C17  Operator trees and state automata unfold to graphs with the same meaning."""
import numpy as np
from hypothesis import strategies as st

import pytenet as ptn
from core import Part, require, Violation
from gen_graph import (tree_list, build_tree, tree_height, automaton, build_automaton, chain_list, build_chains, chain_tuples,
                       layered_graph, build_graph, graph_desc_poly, OID_ID, SYMBOLS, physical_charges, random_opmap,
                       tree_with_identity_id, opmap_with_identity_id)
from oracle_sym import frac, graph_poly, tree_poly, automaton_poly, poly_sum, poly_matrix, chains_poly, absconv, require_consistent
from props.c16 import same_poly, float_conv

ID = 'C17'
RULE = ('cases = (a) lists of 1..4 operator trees (branching 1..3, leaves at different depths incl. exactly at the terminal, shared operator ids, start sites, '
        'charge-consistent labels) for L 1..6; (b) automata with 2..5 nodes built around a drawn accepting path (self loops, parallel edges, dead states, `active` and '
        '`opics` as constants and as site-dependent callables, optionally identical terminals); (c) dense meaning of chains, trees and graphs (both directions) under '
        'random operator maps of dimension 1..3. Non-trivial: >= 2 monomials and (trees) a leaf above the terminal / (automata) a pruned dead state or a site-dependent edge.')
ASSUME = ['meaning = polynomial in a free algebra; exact for dyadic coefficients', 'automata outside the domain (no accepting path of the requested length) are never generated']


def rand_opmap(dim, seed):
    rng = np.random.default_rng(seed)
    om = {}
    for oid in SYMBOLS:
        om[oid] = np.identity(dim) if oid == OID_ID else rng.normal(size=(dim, dim)) + 1j * rng.normal(size=(dim, dim))
    return om


def dense_close(got, want, poly, opmap, L, what, magsum=None):
    if magsum is None:
        magsum = sum(abs(complex(c)) for c in poly.values())
    mag = magsum * max(1.0, max(np.linalg.norm(m, 2) for m in opmap.values())) ** L
    got = np.asarray(got)
    require(got.shape == want.shape, what + ': wrong shape', got=got.shape, want=want.shape)
    err = np.linalg.norm(got - want)
    require(err <= 1e-12 * max(mag, 1.0) * max(1, len(poly)), what + ': dense meaning differs from the symbolic meaning', err=err, magnitude=mag)


def check_trees(case, rec):
    L = case['L']
    exact = case['cstyle'] == 'dyadic'
    conv = frac if exact else float_conv
    # the identity id is an argument of from_optrees: ids 0 and `ident` are swapped throughout
    ident = case.get('identity_id', 0)
    OID_ID = ident
    case = dict(case, trees=[tree_with_identity_id(t, ident) for t in case['trees']])
    trees = [build_tree(t) for t in case['trees']]
    want = poly_sum(*[tree_poly(t, L, OID_ID, conv) for t in case['trees']])
    graph = ptn.OpGraph.from_optrees(trees, L, OID_ID)
    require_consistent(graph, 'unfolded graph')
    require(graph.length == L, 'graph has the wrong length', got=graph.length, want=L)
    magsum = float(sum(poly_sum(*[tree_poly(t, L, OID_ID, absconv) for t in case['trees']]).values()))
    same_poly(graph_poly(graph, conv), want, exact, 'from_optrees', scale=magsum)
    dim = case['dim']
    opmap = opmap_with_identity_id(rand_opmap(dim, case['opseed']), ident)
    # dense meaning of the graph, both directions
    ref = poly_matrix(want, opmap, dim, L)
    dense_close(graph.as_matrix(opmap), ref, want, opmap, L, 'OpGraph.as_matrix(direction=1)', magsum)
    dense_close(graph.as_matrix(opmap, direction=0), ref, want, opmap, L, 'OpGraph.as_matrix(direction=0)', magsum)
    # dense meaning of every tree on its own (height h, no start padding; shallower leaves padded with identities)
    leaf_above = False
    for t, td in zip(trees, case['trees']):
        h = tree_height(td['root'])
        require(t.height() == h, 'OpTree.height differs', got=t.height(), want=h)
        p = tree_poly({'istart': 0, 'root': td['root']}, h, OID_ID, conv)
        pm = float(sum(tree_poly({'istart': 0, 'root': td['root']}, h, OID_ID, absconv).values()))
        dense_close(t.as_matrix(opmap), poly_matrix(p, opmap, dim, h), p, opmap, h, 'OpTree.as_matrix', pm)
        if h < L - td['istart']:
            leaf_above = True
        else:
            # some leaf may still be above the deepest one
            def depths(node, d=0):
                return [d] if not node['ch'] else [x for c in node['ch'] for x in depths(c[2], d + 1)]
            if min(depths(td['root'])) < L - td['istart']:
                leaf_above = True
    # MPO conversion of the unfolded graph keeps the meaning (charge-consistent labels)
    qd = physical_charges(case['charged'], case['opseed'], L)
    cmap = opmap_with_identity_id(random_opmap(qd, case['charged'], case['opseed'] + 3), ident)
    mpo = ptn.MPO.from_opgraph(qd, graph, cmap)
    from oracle_dense import mpo_to_mat
    if len(want):
        dense_close(mpo_to_mat(mpo.A), poly_matrix(want, cmap, len(qd), L), want, cmap, L, 'MPO.from_opgraph(from_optrees)', magsum)
    rec.label('L=%d' % L, 'ntrees=%d' % len(trees), 'charged' if case['charged'] else 'uncharged')
    if leaf_above:
        rec.label('leaf_above_terminal')
    if any(t['istart'] > 0 for t in case['trees']):
        rec.label('start_site>0')
    rec.nontrivial = bool(len(want) >= 2 and leaf_above)


@st.composite
def gen_trees(draw, tier):
    d = draw(tree_list(Lmax=5 if tier == 'quick' else 6))
    d['dim'] = draw(st.sampled_from([2, 3, 1]))
    if d['dim'] ** d['L'] > 729:
        d['dim'] = 2
    d['opseed'] = draw(st.integers(0, 10000))
    d['identity_id'] = draw(st.sampled_from([0, 0, 7, -3]))
    return d


def check_automaton(case, rec):
    L = case['L']
    exact = case['cstyle'] == 'dyadic'
    conv = frac if exact else float_conv
    want = automaton_poly(case, L, conv)
    aut = build_automaton(case)
    require(aut.is_consistent(), 'generated automaton is inconsistent (generator post-condition)')
    graph = ptn.OpGraph.from_automaton(aut, L)
    require_consistent(graph, 'unfolded graph')
    require(graph.length == L, 'graph has the wrong length', got=graph.length, want=L)
    magsum = float(sum(automaton_poly(case, L, absconv).values()))
    same_poly(graph_poly(graph, conv), want, exact, 'from_automaton', scale=magsum)
    # every node of the unrolled graph lies on a terminal-to-terminal path (dead states pruned)
    fwd = {graph.nid_terminal[0]}
    frontier = [graph.nid_terminal[0]]
    while frontier:
        n = frontier.pop()
        for eid in graph.nodes[n].eids[1]:
            t = graph.edges[eid].nids[1]
            if t not in fwd:
                fwd.add(t); frontier.append(t)
    bwd = {graph.nid_terminal[1]}
    frontier = [graph.nid_terminal[1]]
    while frontier:
        n = frontier.pop()
        for eid in graph.nodes[n].eids[0]:
            t = graph.edges[eid].nids[0]
            if t not in bwd:
                bwd.add(t); frontier.append(t)
    require(set(graph.nodes.keys()) == fwd & bwd and fwd == bwd, 'unrolled graph contains a node that is not on a terminal-to-terminal path',
            nodes=len(graph.nodes), forward=len(fwd), backward=len(bwd))
    # MPO conversion (charge-consistent)
    qd = physical_charges(case['charged'], case['opseed'], L)
    cmap = random_opmap(qd, case['charged'], case['opseed'] + 3)
    mpo = ptn.MPO.from_opgraph(qd, graph, cmap)
    from oracle_dense import mpo_to_mat
    if len(want):
        dense_close(mpo_to_mat(mpo.A), poly_matrix(want, cmap, len(qd), L), want, cmap, L, 'MPO.from_opgraph(from_automaton)', magsum)
    site_dep = any(isinstance(e[4], dict) or 'by_site' in e[3] for e in case['edges'])
    # dead state: automaton node that is not on any accepting path of this length
    used = set()
    adj = {}
    for e in case['edges']:
        adj.setdefault(e[1], []).append(e)

    def act(e, i):
        return e[4]['by_site'][i] if isinstance(e[4], dict) else bool(e[4])
    reach = [set() for _ in range(L + 1)]; reach[0] = {case['term'][0]}
    for i in range(L):
        for n in reach[i]:
            for e in adj.get(n, []):
                if act(e, i):
                    reach[i + 1].add(e[2])
    co = [set() for _ in range(L + 1)]; co[L] = {case['term'][1]}
    for i in reversed(range(L)):
        for e in case['edges']:
            if act(e, i) and e[2] in co[i + 1]:
                co[i].add(e[1])
    for i in range(L + 1):
        used |= reach[i] & co[i]
    dead = len(used) < len(case['nodes'])
    rec.label('L=%d' % L, 'charged' if case['charged'] else 'uncharged')
    if dead:
        rec.label('dead_state_pruned')
    if site_dep:
        rec.label('site_dependent_edge')
    if case['term'][0] == case['term'][1]:
        rec.label('identical_terminals')
    if any(e[1] == e[2] for e in case['edges']):
        rec.label('self_loop')
    if len({(e[1], e[2]) for e in case['edges']}) < len(case['edges']):
        rec.label('parallel_edges')
    rec.nontrivial = bool(len(want) >= 2 and (dead or site_dep))


@st.composite
def gen_automaton(draw, tier):
    d = draw(automaton(Lmax=5 if tier == 'quick' else 6))
    d['opseed'] = draw(st.integers(0, 10000))
    return d


def check_dense_meaning(case, rec):
    """OpChain.as_matrix and OpGraph.as_matrix (both directions) on generated chains / layered graphs."""
    dim = case['dim']
    opmap = rand_opmap(dim, case['opseed'])
    conv = float_conv
    if case['kind'] == 'chain':
        cl = case['obj']
        for c, ch in zip(cl['chains'], build_chains(cl)):
            n = len(c['oids'])
            p = chains_poly([(c['oids'], c['coeff'], 0)], n, OID_ID, conv)
            want = poly_matrix(p, opmap, dim, n)
            got = ch.as_matrix(opmap)
            mag = abs(c['coeff']) * max(1.0, max(np.linalg.norm(m, 2) for m in opmap.values())) ** n
            require(np.asarray(got).shape == want.shape, 'OpChain.as_matrix: wrong shape')
            require(np.linalg.norm(got - want) <= 1e-12 * max(mag, 1.0), 'OpChain.as_matrix differs from coeff * kron(ops)')
            # padding denotes the same operator on the full lattice
            pd = ch.padded(cl['L'], OID_ID)
            require(pd.istart == 0 and pd.length == cl['L'] and pd.coeff == c['coeff'], 'padded chain has wrong start / length / coefficient')
            require(pd.oids == [OID_ID] * c['istart'] + c['oids'] + [OID_ID] * (cl['L'] - c['istart'] - n), 'padded chain has wrong operators')
            require(ch.oids == c['oids'] and ch.istart == c['istart'], 'padded() modified the chain')
        rec.nontrivial = len(cl['chains']) >= 2
        rec.label('chains')
    else:
        gd = case['obj']
        g = build_graph(gd)
        want_p = graph_desc_poly(gd, conv)
        L = gd['L']
        ref = poly_matrix(want_p, opmap, dim, L)
        gm = float(sum(graph_desc_poly(gd, absconv).values()))
        dense_close(g.as_matrix(opmap), ref, want_p, opmap, L, 'OpGraph.as_matrix(direction=1)', gm)
        dense_close(g.as_matrix(opmap, direction=0), ref, want_p, opmap, L, 'OpGraph.as_matrix(direction=0)', gm)
        rec.nontrivial = len(want_p) >= 2
        rec.label('graphs')
    rec.label('dim=%d' % dim)


@st.composite
def gen_dense(draw, tier):
    kind = draw(st.sampled_from(['chain', 'graph']))
    dim = draw(st.sampled_from([2, 3, 1]))
    if kind == 'chain':
        obj = draw(chain_list(Lmax=5, nmax=5))
    else:
        obj = draw(layered_graph(Lmax=5, wmax=3))
    return {'kind': kind, 'obj': obj, 'dim': dim, 'opseed': draw(st.integers(0, 10000))}


PARTS = [
    Part('trees', check_trees, strategy=gen_trees, n={'quick': 600, 'thorough': 6000}, workers={'quick': 4, 'thorough': 16}),
    Part('automata', check_automaton, strategy=gen_automaton, n={'quick': 300, 'thorough': 6000}, workers={'quick': 4, 'thorough': 16}),
    Part('dense_meaning', check_dense_meaning, strategy=gen_dense, n={'quick': 150, 'thorough': 2500}, workers={'quick': 2, 'thorough': 16}),
    Part('fuzz_trees', None, fuzz_of='trees', runs={'quick': 0, 'thorough': 20000}, workers={'quick': 0, 'thorough': 4},
         doc='atheris campaign over the tree grammar'),
    Part('fuzz_automata', None, fuzz_of='automata', runs={'quick': 0, 'thorough': 20000}, workers={'quick': 0, 'thorough': 4},
         doc='atheris campaign over the automaton grammar'),
]
