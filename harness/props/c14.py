"""C14  Lanczos and Arnoldi iterations satisfy their Krylov factorization relations."""
import warnings
import numpy as np
from hypothesis import strategies as st

import pytenet as ptn
from core import Part, require
from gen_krylov import build, krylov_desc, afunc_of

ID = 'C14'
RULE = ('cases = (matrix built from a drawn spectrum with gaps >= 0.25 and multiplicities 1..3 and a Haar unitary / '
        'well-conditioned similarity (optional 2x2 Jordan blocks), start vector with components of modulus >= 0.3 on a chosen set '
        'of eigen-directions so that the Krylov dimension k is known by construction, iteration count m in 1..n+3, norm scale '
        '0.1..5). Non-trivial: m >= 2 and n >= 3. Labels record m<k, m=k, m>k, early termination, degenerate spectrum, real input.')
ASSUME = ['n <= 14 (thorough 24): plain Lanczos keeps orthogonality to 1e-9 in this regime, which is the regime TDVP/DMRG use locally',
          'relations judged to 1e-9 relative to ||A||; the map is passed as a function returning a fresh array or as a function that returns one reused buffer']

TOL = 1e-9


def _labels(desc, n, m, k, a, rec):
    rec.label('m<k' if m < k else ('m=k' if m == k else 'm>k'))
    if a < m:
        rec.label('early_termination_returned')
    if k < n:
        rec.label('invariant_subspace_start')
    if any(x > 1 for x in desc['mult']):
        rec.label('degenerate_spectrum')
    if m == 1:
        rec.label('m=1')
    if m == n:
        rec.label('m=n')
    rec.label('kind_' + desc['kind'])
    rec.label('scale_%g' % desc['scale'])
    if n == 1:
        rec.label('n=1')


def _later_calls(n, seed):
    """Unrelated later use of the two iterations (smaller or equal problem size): results returned earlier must stay what they were."""
    rng = np.random.default_rng(seed)
    for n2 in (n, max(1, n - 1)):
        B = rng.normal(size=(n2, n2)) + 1j * rng.normal(size=(n2, n2))
        x = rng.normal(size=n2) + 1j * rng.normal(size=n2)
        m2 = min(3, n2)
        with warnings.catch_warnings():
            warnings.simplefilter('ignore')
            ptn.lanczos_iteration(lambda y: (B + B.conj().T) @ y, x, m2)
            ptn.arnoldi_iteration(lambda y: B @ y, x, m2)


def check_lanczos(case, rec):
    A, v, k, reach = build(case)
    if k < 0:
        rec.skip('real start vector with a nearly vanishing eigen-component: Krylov dimension numerically fuzzy')
        return
    if case.get('real_start'):
        rec.label('real_start_complex_map')
    n = A.shape[0]; m = case['m']
    A0 = A.copy(); v0 = v.copy()
    with warnings.catch_warnings():
        warnings.simplefilter('ignore')
        alpha, beta, V = ptn.lanczos_iteration(afunc_of(A, case['seed'] // 5), v, m)
    require(np.array_equal(A, A0) and v.tobytes() == v0.tobytes(), 'lanczos_iteration modified the start vector')
    # the returned arrays are judged after the library has been used again: a result must not live in storage that later calls reuse
    snap = (np.array(alpha, copy=True), np.array(beta, copy=True), np.array(V, copy=True))
    _later_calls(A.shape[0], case['seed'] if 'seed' in case else 0)
    require(np.array_equal(alpha, snap[0]) and np.array_equal(beta, snap[1]) and np.array_equal(V, snap[2]),
            'arrays returned by lanczos_iteration were overwritten by a later call')
    a = len(alpha)
    require(V.ndim == 2 and V.shape == (n, a) and len(beta) == a - 1, 'inconsistent output sizes',
            alpha=len(alpha), beta=len(beta), V=V.shape)
    require(1 <= a <= m, 'number of returned vectors outside 1..m', a=a, m=m)
    require(a >= min(m, k), 'iteration stopped before the Krylov space was exhausted', a=a, m=m, k=k)
    require(np.isrealobj(alpha) and np.isrealobj(beta), 'alpha / beta are not real')
    require(np.all(np.isfinite(alpha)) and np.all(np.isfinite(beta)) and np.all(np.isfinite(V)), 'non-finite output')
    nrmA = max(np.linalg.norm(A, 2), 1e-300)
    r = min(a, k)
    Vr = V[:, :r]
    e0 = np.linalg.norm(Vr[:, 0] - v / np.linalg.norm(v))
    require(e0 <= 1e-12, 'first Lanczos vector is not the normalised start vector', err=e0)
    eo = np.linalg.norm(Vr.conj().T @ Vr - np.identity(r))
    require(eo <= TOL, 'Lanczos vectors are not orthonormal (leading part)', err=eo, r=r)
    T = np.diag(alpha[:r]) + np.diag(beta[:r - 1], 1) + np.diag(beta[:r - 1], -1)
    ep = np.linalg.norm(Vr.conj().T @ A @ Vr - T)
    require(ep <= TOL * nrmA, 'projected map differs from the tridiagonal matrix', err=ep, r=r)
    require(np.all(beta[:r - 1] > 0), 'off-diagonal coefficient not positive', beta=beta[:r - 1].tolist())
    rec.metric('orth_err', eo); rec.metric('proj_err', ep / nrmA)
    _labels(case, n, m, k, a, rec)
    rec.nontrivial = bool(m >= 2 and n >= 3)


def check_arnoldi(case, rec):
    A, v, k, reach = build(case)
    if k < 0:
        rec.skip('real start vector with a nearly vanishing eigen-component: Krylov dimension numerically fuzzy')
        return
    if case.get('real_start'):
        rec.label('real_start_complex_map')
    n = A.shape[0]; m = case['m']
    v0 = v.copy()
    with warnings.catch_warnings():
        warnings.simplefilter('ignore')
        H, V = ptn.arnoldi_iteration(afunc_of(A, case['seed'] // 5), v, m)
    require(v.tobytes() == v0.tobytes(), 'arnoldi_iteration modified the start vector')
    snap = (np.array(H, copy=True), np.array(V, copy=True))
    _later_calls(A.shape[0], case['seed'] if 'seed' in case else 0)
    require(np.array_equal(H, snap[0]) and np.array_equal(V, snap[1]), 'arrays returned by arnoldi_iteration were overwritten by a later call')
    require(H.ndim == 2 and H.shape[0] == H.shape[1], 'H is not square', H=H.shape)
    a = H.shape[0]
    require(V.shape == (n, a), 'inconsistent output sizes', H=H.shape, V=V.shape)
    require(1 <= a <= m, 'number of returned vectors outside 1..m', a=a, m=m)
    require(a >= min(m, k), 'iteration stopped before the Krylov space was exhausted', a=a, m=m, k=k)
    require(np.all(np.isfinite(H)) and np.all(np.isfinite(V)), 'non-finite output')
    nrmA = max(np.linalg.norm(A, 2), 1e-300)
    r = min(a, k)
    Vr = V[:, :r]; Hr = H[:r, :r]
    e0 = np.linalg.norm(Vr[:, 0] - v / np.linalg.norm(v))
    require(e0 <= 1e-12, 'first Arnoldi vector is not the normalised start vector', err=e0)
    eo = np.linalg.norm(Vr.conj().T @ Vr - np.identity(r))
    require(eo <= TOL, 'Arnoldi vectors are not orthonormal (leading part)', err=eo, r=r)
    ep = np.linalg.norm(Vr.conj().T @ A @ Vr - Hr)
    require(ep <= TOL * nrmA, 'projected map differs from the Hessenberg matrix', err=ep, r=r)
    low = np.tril(Hr, -2)
    require(not np.any(low), 'H is not upper Hessenberg')
    sub = np.diag(Hr, -1)
    require(np.all(np.abs(sub.imag) == 0) and np.all(sub.real > 0), 'sub-diagonal of H not positive', sub=[complex(x) for x in sub])
    # Arnoldi relation A V_{r-1} = V_r H[:r, :r-1]
    if r >= 2:
        er = np.linalg.norm(A @ Vr[:, :r - 1] - Vr @ Hr[:, :r - 1])
        require(er <= TOL * nrmA, 'Arnoldi relation A V = V H violated', err=er)
    rec.metric('orth_err', eo); rec.metric('proj_err', ep / nrmA)
    _labels(case, n, m, k, a, rec)
    rec.nontrivial = bool(m >= 2 and n >= 3)


def _nmax(tier):
    return 14 if tier == 'quick' else 24


PARTS = [
    Part('lanczos', check_lanczos, strategy=lambda tier: krylov_desc(nmax=_nmax(tier), kinds=('herm_real', 'herm_complex', 'herm_complex', 'herm_real', 'herm_kernel')),
         n={'quick': 600, 'thorough': 20000}, workers={'quick': 4, 'thorough': 16}),
    Part('arnoldi', check_arnoldi,
         strategy=lambda tier: krylov_desc(nmax=_nmax(tier), kinds=('general', 'general', 'general_jordan', 'herm_complex', 'herm_real', 'general_shift', 'herm_kernel')),
         n={'quick': 500, 'thorough': 15000}, workers={'quick': 4, 'thorough': 16}),
]
