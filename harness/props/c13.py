"""C13  Compression and vector-to-MPS conversion obey their truncation error bounds."""
import numpy as np
from hypothesis import strategies as st

import pytenet as ptn
from core import Part, require
from gen_qn import mps_desc, build_mps, FLOAT_STYLES
from oracle_dense import mps_to_vec, schmidt_values
from props.c03 import vec_from

ID = 'C13'
RULE = ('cases = (non-zero MPS with constructed charges, L 1..6, any bond profile, bonds rescaled by drawn weight vectors to shape the entanglement spectrum: '
        'as-is / fast decay / flat / staircase / product state; tolerance 0, log-uniform in [1e-14, 1/L), or exactly a cumulative Schmidt weight of the first truncated bond; both modes); '
        'from_vector: vectors of length d^n (generic, product, GHZ-like, basis, integer) x tolerance. Non-trivial: a bond dimension fell below the Schmidt rank of the original state '
        '(i.e. truncation, not QR, reduced it).')
ASSUME = ['exactly-zero states are outside the domain', 'a tolerance within 1e-10 of a cumulative Schmidt weight accepts both neighbouring counts',
          'identities judged on squared quantities to 1e-11 nrm^2']

SPECTRA = ['asis', 'fast', 'fast', 'stair', 'stair', 'flat', 'product']


def shaped_mps(case):
    psi = build_mps(case['obj'])
    rng = np.random.default_rng(case['obj']['seed'] + 7)
    L = len(psi.A)
    sp = case['spectrum']
    for i in range(L - 1):
        D = psi.A[i].shape[2]
        if sp == 'asis':
            continue
        if sp == 'fast':
            w = 10.0 ** (-1.5 * rng.permutation(D))
        elif sp == 'flat':
            w = np.ones(D)
        elif sp == 'stair':
            w = 2.0 ** (-(rng.permutation(D) // 2))
        elif sp == 'product':
            w = np.zeros(D); w[rng.integers(0, D)] = 1.0
        psi.A[i] = psi.A[i] * w[None, None, :]
    return psi


def tol_of(case, v0, d, L, mode):
    t = case['tol']
    if t['mode'] == 'zero':
        return 0.0
    if t['mode'] == 'value':
        # log-uniform in [1e-14, 1/L)
        hi = (1.0 / L) * 0.999
        return float(min(hi, 10.0 ** (-14 + 14 * t['x']) / L))
    # exactly on a cumulative Schmidt weight of the first truncated bond
    if L < 2:
        return 0.0
    cut = 1 if mode == 'left' else L - 1
    s = schmidt_values(v0 / np.linalg.norm(v0), d, L, cut)
    c = np.cumsum(np.sort(s ** 2))
    c = c[c < (1.0 / L) * 0.999]
    if len(c) == 0:
        return 0.0
    return float(c[t['j'] % len(c)])


def apply_prelude(psi, case):
    """
    Optional history before the judged call: a canonicalisation or compression, followed by a user-style edit of a site
    tensor (assignment of a new array / in-place update). The judged compress must treat the edited state like any other.
    """
    pre = case.get('prelude')
    if not pre:
        return
    rng = np.random.default_rng(case['obj']['seed'] + 99)
    if pre['op'] == 'orth_left':
        psi.orthonormalize(mode='left')
    elif pre['op'] == 'orth_right':
        psi.orthonormalize(mode='right')
    elif pre['op'] == 'compress_left':
        psi.compress(0.0, mode='left')
    elif pre['op'] == 'compress_right':
        psi.compress(1e-3, mode='right')
    k = pre['site'] % len(psi.A)
    a = psi.A[k]
    mask = np.asarray(a) != 0
    if pre['edit'] == 'assign_scaled':
        psi.A[k] = 2.5 * a
    elif pre['edit'] == 'inplace_scale':
        psi.A[k] = np.array(a, dtype=complex); psi.A[k] *= (0.5 - 1.5j)
    elif pre['edit'] == 'assign_perturbed':
        # new entries on the existing sparsity pattern (keeps the quantum number rule)
        psi.A[k] = np.where(mask, a + 0.3 * (rng.normal(size=a.shape) + 1j * rng.normal(size=a.shape)), 0)
    elif pre['edit'] == 'tiny_scale':
        # nearly canonical input: the tensor stays an isometry up to a relative deviation of 2e-6 (far above rounding)
        psi.A[k] = (1 + 2e-6) * a
    elif pre['edit'] == 'tiny_perturbed':
        psi.A[k] = np.where(mask, a * (1 + 3e-7 * rng.normal(size=a.shape)), 0)
    elif pre['edit'] == 'none':
        pass


def check_compress(case, rec):
    psi = shaped_mps(case)
    apply_prelude(psi, case)
    if case.get('prelude'):
        rec.label('prelude_' + case['prelude']['op'] + '_' + case['prelude']['edit'])
    mode = case['mode']
    L = len(psi.A); d = len(psi.qd)
    v0 = np.asarray(mps_to_vec([np.asarray(a, dtype=complex) for a in psi.A]))
    n0 = np.linalg.norm(v0)
    if n0 == 0:
        rec.skip('zero state: outside the domain')
        return
    if n0 < 1e-100:
        rec.skip('underflowing norm')
        return
    tol = tol_of(case, v0, d, L, mode)
    D_old = psi.bond_dims
    # the tolerance in its legal numeric forms (float, int 0, numpy scalar)
    tform = (0 if case['obj']['seed'] % 2 else 0.0) if tol == 0 else (np.float64(tol) if case['obj']['seed'] % 2 else tol)
    if mode == 'left' and (case['obj']['seed'] // 2) % 2:
        ret = psi.compress(tform)               # 'left' is the documented default of `mode`
        rec.label('default_mode_argument')
    else:
        ret = psi.compress(tform, mode=mode)
    require(isinstance(ret, tuple) and len(ret) == 2, 'compress must return (norm, scale)')
    nrm, scale = float(np.real(ret[0])), float(np.real(ret[1]))
    require(np.isfinite(nrm) and np.isfinite(scale), 'non-finite return values', nrm=nrm, scale=scale)
    require(abs(nrm - n0) <= 1e-11 * n0, 'returned norm differs from the norm of the original state', nrm=nrm, norm=n0)
    require(scale <= 1 + 1e-12, 'scale factor exceeds one', scale=scale)
    require(scale >= np.sqrt(max(0.0, 1 - L * tol)) - 1e-12, 'scale factor below sqrt(1 - L tol)', scale=scale, bound=float(np.sqrt(max(0.0, 1 - L * tol))), tol=tol, L=L)
    for a in psi.A:
        require(np.all(np.isfinite(a)), 'non-finite tensor entries after compression')
    v1 = np.asarray(mps_to_vec([np.asarray(a, dtype=complex) for a in psi.A]))
    require(abs(np.linalg.norm(v1) - 1) <= 1e-11, 'compressed state is not normalized', norm=float(np.linalg.norm(v1)))
    D_new = psi.bond_dims
    require(len(D_new) == len(D_old) and all(a <= b for a, b in zip(D_new, D_old)), 'a bond dimension increased', before=D_old, after=D_new)
    for i, a in enumerate(psi.A):
        if mode == 'left':
            M = a.reshape(-1, a.shape[2])
        else:
            M = a.transpose(0, 2, 1).reshape(-1, a.shape[1])
        e = np.linalg.norm(M.conj().T @ M - np.identity(M.shape[1]))
        require(e <= 1e-11 * max(1, M.shape[1]), 'compressed state is not canonical in the sweep direction', site=i, err=e)
    err2 = np.linalg.norm(nrm * scale * v1 - v0) ** 2
    want2 = nrm ** 2 * (1 - scale ** 2)
    require(abs(err2 - want2) <= 1e-11 * nrm ** 2, 'truncation error differs from norm * sqrt(1 - scale^2)', err2=err2, want2=want2, nrm=nrm, scale=scale)
    require(np.sqrt(err2) <= nrm * np.sqrt(L * tol) + 1e-11 * nrm, 'truncation error exceeds norm * sqrt(L tol)', err=float(np.sqrt(err2)), bound=float(nrm * np.sqrt(L * tol)))
    rec.metric('identity_err', abs(err2 - want2) / nrm ** 2)
    if tol == 0:
        require(np.sqrt(err2) <= 1e-11 * n0 and abs(scale - 1) <= 1e-11, 'zero tolerance compression is not exact', err=float(np.sqrt(err2)), scale=scale)
    truncated = False
    vn = v0 / n0
    for cut in range(1, L):
        s = schmidt_values(vn, d, L, cut)
        rank = int(np.sum(s > 1e-12))
        if D_new[cut] < rank:
            truncated = True
    # first truncated bond keeps exactly the Schmidt values prescribed by the tolerance rule
    if L >= 2:
        cut = 1 if mode == 'left' else L - 1
        s = schmidt_values(vn, d, L, cut)
        # exact zeros stay in the list: at tol = 0 their cumulative weight 0 sits on the threshold (rounding noise of the
        # implementation's SVD may or may not be kept)
        c = np.cumsum(np.sort(s ** 2) / np.sum(s ** 2))
        keep_hi = int(np.sum(c > tol - 1e-10))
        keep_lo = int(np.sum(c > tol + 1e-10))
        # values below ~1e-16 relative weight are rounding noise of the dense SVD: allow the count to ignore them
        noise = int(np.sum(np.sort(s ** 2) / np.sum(s ** 2) < 1e-28))
        got = D_new[cut]
        require(keep_lo - noise <= got <= keep_hi, 'first truncated bond does not keep the Schmidt values prescribed by the tolerance rule',
                cut=cut, kept=got, expected=[keep_lo, keep_hi], tol=tol, weights=c[:6].tolist())
        if keep_lo != keep_hi:
            rec.label('tol_on_threshold')
    rec.label('mode_' + mode, 'spectrum_' + case['spectrum'], 'tol_' + case['tol']['mode'], 'L=%d' % L)
    if truncated:
        rec.label('truncated')
    rec.nontrivial = bool(truncated)


WEIGHTS = {2: [[0.5, 0.5], [0.8, 0.2]], 3: [[0.5, 0.25, 0.25], [0.4, 0.4, 0.2], [0.25, 0.5, 0.25]],
           4: [[0.64, 0.12, 0.12, 0.12], [0.25, 0.25, 0.25, 0.25], [0.12, 0.64, 0.12, 0.12], [0.4, 0.4, 0.1, 0.1]]}


def degenerate_mps(case):
    """
    Product of entangled pairs sum_s sqrt(w_s) |s, pi(s)> with *exactly* repeated weights (tensors have one non-zero
    entry per row, so the Schmidt values are the square roots of the weights up to the rounding of one sqrt), optionally
    with U(1) charges; bonds inside a pair have dimension d, bonds between pairs dimension 1.
    """
    d = case['d']; npairs = case['npairs']
    w = np.sqrt(np.array(WEIGHTS[d][case['wsel'] % len(WEIGHTS[d])]))
    rng = np.random.default_rng(case['seed'])
    charged = case['charged']
    qd = list(range(d)) if charged else [0] * d
    A = []; qD = [[0]]
    tot = 0
    for _ in range(npairs):
        perm = rng.permutation(d)
        ph = np.exp(2j * np.pi * rng.random(d)) if case['complex'] else np.ones(d)
        a0 = np.zeros((d, 1, d), dtype=complex if case['complex'] else float)
        a1 = np.zeros((d, d, 1), dtype=complex if case['complex'] else float)
        for s_ in range(d):
            a0[s_, 0, s_] = w[s_] if case['weight_left'] else 1.0
            a1[perm[s_], s_, 0] = (1.0 if case['weight_left'] else w[s_]) * ph[s_]
        # charges: bond inside the pair carries tot + qd[s]; the pair's total charge must not depend on s
        if charged:
            perm = np.array([d - 1 - s_ for s_ in range(d)])
            a1[...] = 0
            for s_ in range(d):
                a1[perm[s_], s_, 0] = (1.0 if case['weight_left'] else w[s_]) * ph[s_]
            qD.append([tot + s_ for s_ in range(d)])
            tot += d - 1
            qD.append([tot])
        else:
            qD.append([0] * d); qD.append([0])
        A += [a0, a1]
    psi = ptn.MPS(qd, qD, fill='postpone')
    psi.A = A
    return psi


def check_degenerate(case, rec):
    psi = degenerate_mps(case)
    d = case['d']; L = len(psi.A)
    wts = np.sort(np.array(WEIGHTS[d][case['wsel'] % len(WEIGHTS[d])]))
    cum = np.cumsum(wts)
    # tolerance strictly inside a degenerate multiplet (between two cumulative weights of tied values), or generic
    cands = [0.5 * (cum[i] + cum[i + 1]) for i in range(len(cum) - 1) if wts[i + 1] == wts[i] or (i > 0 and wts[i] == wts[i - 1])]
    cands = [t for t in cands if t < 0.999 / L] or [0.5 * cum[0]]
    tol = cands[case['tsel'] % len(cands)]
    sub = dict(case)
    v0 = np.asarray(mps_to_vec([np.asarray(a, dtype=complex) for a in psi.A]))
    n0 = np.linalg.norm(v0)
    D_old = psi.bond_dims
    mode = case['mode']
    if mode == 'left' and case.get('seed', 0) % 2:
        nrm, scale = psi.compress(tol)          # 'left' is the documented default
        rec.label('default_mode_argument')
    else:
        nrm, scale = psi.compress(tol, mode=mode)
    nrm = float(np.real(nrm)); scale = float(np.real(scale))
    require(abs(nrm - n0) <= 1e-11 * n0, 'returned norm differs from the norm of the original state', nrm=nrm, norm=n0)
    require(scale <= 1 + 1e-12 and scale >= np.sqrt(max(0.0, 1 - L * tol)) - 1e-12, 'scale factor outside [sqrt(1 - L tol), 1]',
            scale=scale, bound=float(np.sqrt(max(0.0, 1 - L * tol))), tol=tol, weights=wts.tolist())
    v1 = np.asarray(mps_to_vec([np.asarray(a, dtype=complex) for a in psi.A]))
    require(abs(np.linalg.norm(v1) - 1) <= 1e-11, 'compressed state is not normalized')
    err2 = np.linalg.norm(nrm * scale * v1 - v0) ** 2
    require(abs(err2 - nrm ** 2 * (1 - scale ** 2)) <= 1e-11 * nrm ** 2, 'truncation error differs from norm * sqrt(1 - scale^2)')
    require(np.sqrt(err2) <= nrm * np.sqrt(L * tol) + 1e-11 * nrm, 'truncation error exceeds norm * sqrt(L tol)', err=float(np.sqrt(err2)), bound=float(nrm * np.sqrt(L * tol)))
    D_new = psi.bond_dims
    require(all(a <= b for a, b in zip(D_new, D_old)), 'a bond dimension increased')
    # first truncated bond: count prescribed by the rule on the exact weights (1e-10 window)
    cut = 1 if mode == 'left' else L - 1
    keep_hi = int(np.sum(cum > tol - 1e-10)); keep_lo = int(np.sum(cum > tol + 1e-10))
    require(keep_lo <= D_new[cut] <= keep_hi, 'first truncated bond does not keep the Schmidt values prescribed by the tolerance rule',
            kept=D_new[cut], expected=[keep_lo, keep_hi], tol=tol, weights=wts.tolist())
    rec.label('d=%d' % d, 'pairs=%d' % case['npairs'], 'charged' if case['charged'] else 'uncharged', 'mode_' + mode)
    rec.nontrivial = bool(D_new[cut] < d)


@st.composite
def gen_degenerate(draw, tier):
    d = draw(st.sampled_from([4, 3, 2]))
    npairs = draw(st.sampled_from([1, 2, 3] if d <= 3 else [1, 2]))
    return {'d': d, 'npairs': npairs, 'wsel': draw(st.integers(0, 7)), 'tsel': draw(st.integers(0, 7)), 'seed': draw(st.integers(0, 10**6)),
            'charged': draw(st.booleans()), 'complex': draw(st.booleans()), 'weight_left': draw(st.booleans()),
            'mode': draw(st.sampled_from(['left', 'right']))}


@st.composite
def gen_compress(draw, tier):
    if draw(st.booleans()):
        d = draw(st.sampled_from([2, 3, 4, 2]))
        obj = draw(mps_desc(Lmin=2, Lmax=6, qd=[0] * d, q0=0, Dmax=8, styles=['complex', 'complex', 'real'], disjoint_prob=0, junk=False))
    else:
        obj = draw(mps_desc(Lmin=1, Lmax=6, dmin=1, dmax=4, Dmax=8, styles=['complex', 'complex', 'real', 'dupcols'], disjoint_prob=0, junk=False))
    tm = draw(st.sampled_from(['zero', 'value', 'value', 'cum', 'cum']))
    tol = {'mode': tm}
    if tm == 'value':
        tol['x'] = draw(st.one_of(st.floats(0, 1), st.floats(0.5, 1), st.floats(0.8, 1)))
    if tm == 'cum':
        tol['j'] = draw(st.integers(0, 12))
    case = {'obj': obj, 'mode': draw(st.sampled_from(['left', 'right'])), 'spectrum': draw(st.sampled_from(SPECTRA)), 'tol': tol}
    if draw(st.sampled_from(range(3))) == 2:
        case['prelude'] = {'op': draw(st.sampled_from(['orth_left', 'orth_right', 'compress_left', 'compress_right'])),
                           'edit': draw(st.sampled_from(['assign_scaled', 'inplace_scale', 'assign_perturbed', 'none', 'tiny_scale', 'tiny_perturbed'])),
                           'site': draw(st.integers(0, 5))}
    return case


def check_from_vector_tol(case, rec):
    v = vec_from(case)
    d, n = case['d'], case['n']
    nv = np.linalg.norm(v)
    tol = 0.0 if case['tolx'] == 0 else min(0.999 / n, 10.0 ** (-14 + 14 * case['tolx']) / n)
    psi = ptn.MPS.from_vector(d, n, v, tol=tol)
    got = np.asarray(mps_to_vec([np.asarray(a, dtype=complex) for a in psi.A]))
    err = np.linalg.norm(got - v)
    require(err <= (np.sqrt(n * tol) + 1e-12) * nv, 'from_vector error exceeds sqrt(n tol) ||v||', err=err / nv, bound=float(np.sqrt(n * tol)), tol=tol)
    D = psi.bond_dims
    exact_D = [min(d ** i, d ** (n - i)) for i in range(n + 1)]
    require(all(a <= b for a, b in zip(D, exact_D)), 'bond dimension exceeds the Schmidt bound', D=D)
    # the first bond keeps exactly the values prescribed by the rule
    if n >= 2:
        s = schmidt_values(v / nv, d, n, 1)
        c = np.cumsum(np.sort(s ** 2) / np.sum(s ** 2))
        hi = int(np.sum(c > tol - 1e-10)); lo = int(np.sum(c > tol + 1e-10))
        noise = int(np.sum(np.sort(s ** 2) / np.sum(s ** 2) < 1e-28))
        require(lo - noise <= D[1] <= hi, 'first bond of from_vector does not follow the tolerance rule', kept=D[1], expected=[lo, hi], tol=tol)
    truncated = any(a < b for a, b in zip(D, exact_D)) and err > 1e-13 * nv
    rec.label('vkind_' + case['vkind'], 'n=%d' % n)
    rec.metric('rel_err_over_bound', err / nv / max(np.sqrt(n * tol), 1e-300) if tol > 0 else 0)
    rec.nontrivial = bool(truncated)


@st.composite
def gen_from_vector(draw, tier):
    d = draw(st.sampled_from([2, 3, 4, 1]))
    nmax = 6
    while d ** nmax > 4096:
        nmax -= 1
    n = draw(st.sampled_from([k for k in range(2, nmax + 1)] + [1]))
    return {'d': d, 'n': n, 'seed': draw(st.integers(0, 2**31 - 1)),
            'vkind': draw(st.sampled_from(['complex', 'real', 'product', 'ghz', 'basis', 'int'])),
            'tolx': draw(st.one_of(st.just(0.0), st.floats(0.5, 1), st.floats(0.8, 1), st.floats(0.9, 1)))}


PARTS = [
    Part('degenerate_multiplets', check_degenerate, strategy=gen_degenerate, n={'quick': 150, 'thorough': 2000}, workers={'quick': 2, 'thorough': 16},
         doc='pair-product states with exactly repeated Schmidt values, tolerance strictly inside a multiplet'),
    Part('compress', check_compress, strategy=gen_compress, n={'quick': 300, 'thorough': 5000}, workers={'quick': 4, 'thorough': 16}),
    Part('from_vector', check_from_vector_tol, strategy=gen_from_vector, n={'quick': 150, 'thorough': 2500}, workers={'quick': 2, 'thorough': 16}),
]
