"""C07  Molecular Hamiltonian MPOs are exact for every orbital count, both build paths."""
import numpy as np
from scipy import sparse
from hypothesis import strategies as st

import pytenet as ptn
from core import Part, require
import oracle_fock as ref
from oracle_dense import mpo_to_mat, mpo_mask_violation

ID = 'C07'
RULE = ('cases = (variant spinless | spin-orbital, build path optimized | explicit, orbital count L over the whole documented domain up to dense/sparse reach, '
        'coefficient structure: complex / real / random zero mask / symmetric (hermitian t, symmetric v) / zero-padded (last orbital decoupled) / integer-valued / one-body only / '
        'two-body only; flag spelled as bool, numpy.bool_ or int: same tensors as with the Python bool); gauge part: explicit spinless MPO, every rotated pair i, 2x2 unitary in {Haar, real rotation, permutation, diagonal phases, identity}, optionally another molecular MPO (different L, explicit / spin / optimized) built between construction and gauge call. '
        'Non-trivial: L >= 2 and non-zero two-body tensor.')
ASSUME = ['reference = second-quantized operator built from occupation-number states (oracle_fock), compared in sparse form with max-abs tolerance 1e-11 x scale',
          'coefficient tensors that vanish identically are outside the domain',
          'the gauge recipe is the one exercised by the repository test (replace tensors i, i+1 by those of the rotated-coefficient MPO, apply v_l / v_r on the outer bonds)']

STRUCTS = ['complex', 'real', 'masked', 'symmetric', 'zero_padded', 'integer', 'one_body_only', 'two_body_only']


def coefficients(L, struct, seed):
    rng = np.random.default_rng(seed)

    def cr(shape):
        return (rng.normal(size=shape) + 1j * rng.normal(size=shape)) / np.sqrt(2)
    if struct == 'complex':
        t, v = cr((L, L)), cr((L, L, L, L))
    elif struct == 'real':
        t, v = rng.normal(size=(L, L)), rng.normal(size=(L, L, L, L))
    elif struct == 'masked':
        t, v = cr((L, L)), cr((L, L, L, L))
        t = np.where(rng.random((L, L)) < 0.5, t, 0)
        v = np.where(rng.random((L, L, L, L)) < 0.3, v, 0)
    elif struct == 'symmetric':
        t = cr((L, L)); t = t + t.conj().T
        v = rng.normal(size=(L, L, L, L))
        v = v + v.transpose(1, 0, 3, 2)
        v = v + v.transpose(2, 3, 0, 1)
    elif struct == 'zero_padded':
        t, v = np.zeros((L, L), dtype=complex), np.zeros((L, L, L, L), dtype=complex)
        if L >= 2:
            t[:L - 1, :L - 1] = cr((L - 1, L - 1)); v[:L - 1, :L - 1, :L - 1, :L - 1] = cr((L - 1,) * 4)
        else:
            t = cr((L, L))
    elif struct == 'integer':
        t, v = rng.integers(-2, 3, size=(L, L)), rng.integers(-2, 3, size=(L, L, L, L))
    elif struct == 'one_body_only':
        t, v = cr((L, L)), np.zeros((L, L, L, L))
    elif struct == 'two_body_only':
        t, v = np.zeros((L, L)), cr((L, L, L, L))
    else:
        raise ValueError(struct)
    return t, v


def check_construction(case, rec):
    L = case['L']; spin = case['variant'] == 'spin'; opt = case['optimize']
    t, v = coefficients(L, case['struct'], case['seed'])
    t0, v0 = np.array(t, copy=True), np.array(v, copy=True)
    Href = (ref.spin_molecular(t, v) if spin else ref.molecular(t, v)).tocsr()
    scale = max(1.0, float(abs(Href).max()) if Href.nnz else 0.0)
    rec.label('variant_' + case['variant'], 'optimized' if opt else 'explicit', 'L=%d' % L, 'struct_' + case['struct'])
    if Href.nnz == 0 or abs(Href).max() == 0:
        if opt:
            try:
                (ptn.spin_molecular_hamiltonian_mpo if spin else ptn.molecular_hamiltonian_mpo)(t, v, optimize=True)
            except Exception:
                rec.skip('identically-zero operator (constructor raised)')
                return
    # the flag in its legal forms: Python bool, NumPy bool, integer
    flag = [opt, np.bool_(opt), int(opt)][case['seed'] % 3]
    if opt and (case['seed'] // 3) % 2:
        mpo = (ptn.spin_molecular_hamiltonian_mpo if spin else ptn.molecular_hamiltonian_mpo)(t, v)     # optimize=True is the documented default
        rec.label('default_optimize_argument')
    else:
        mpo = (ptn.spin_molecular_hamiltonian_mpo if spin else ptn.molecular_hamiltonian_mpo)(t, v, optimize=flag)
    if not isinstance(flag, bool):
        # the spelling of the flag must not matter: same construction as with the Python bool (construction is deterministic)
        mpo_b = (ptn.spin_molecular_hamiltonian_mpo if spin else ptn.molecular_hamiltonian_mpo)(t, v, optimize=bool(opt))
        require(mpo.bond_dims == mpo_b.bond_dims and all(np.array_equal(a, b) for a, b in zip(mpo.A, mpo_b.A)),
                'optimize flag given as NumPy bool / integer selects a different construction than the Python bool',
                flag=repr(flag), bond_dims=mpo.bond_dims, bond_dims_bool=mpo_b.bond_dims)
        rec.label('flag_' + type(flag).__name__)
    require(np.array_equal(t, t0) and np.array_equal(v, v0), 'constructor modified the coefficient tensors')
    require(mpo.nsites == L, 'wrong number of sites', got=mpo.nsites, want=L)
    d = 4 if spin else 2
    require(len(mpo.qd) == d, 'wrong physical dimension')
    Ms = mpo.as_matrix(sparse_format=True)
    diff = abs(sparse.csr_matrix(Ms) - Href)
    err = float(diff.max()) if diff.nnz else 0.0
    require(err <= 1e-11 * scale * max(1, L), 'MPO differs from the second-quantized reference operator', err=err, scale=scale)
    rec.metric('sparse_err', err / scale)
    if d ** L <= 256:
        Md = mpo_to_mat([np.asarray(a, dtype=complex) for a in mpo.A])
        e2 = np.max(np.abs(Md - Href.toarray()))
        require(e2 <= 1e-11 * scale * max(1, L), 'independent dense contraction of the MPO differs from the reference', err=e2)
    for i, A in enumerate(mpo.A):
        require(len(mpo.qD[i]) == A.shape[2] and len(mpo.qD[i + 1]) == A.shape[3], 'charge list length differs from bond dimension', site=i)
        require(mpo_mask_violation(A, mpo.qd, mpo.qD[i], mpo.qD[i + 1]) == 0, 'tensor not block sparse under its quantum numbers', site=i)
    require(int(mpo.qD[0][0]) == 0 and int(mpo.qD[-1][0]) == 0 and len(mpo.qD[0]) == 1 and len(mpo.qD[-1]) == 1,
            'molecular Hamiltonian must conserve particle number (and spin): outer bond charges must be zero')
    rec.nontrivial = bool(L >= 2 and np.any(np.asarray(v) != 0))


@st.composite
def gen_construction(draw, tier):
    variant = draw(st.sampled_from(['spinless', 'spinless', 'spin']))
    opt = draw(st.booleans())
    if variant == 'spinless':
        hi = 6 if tier == 'quick' else 8
        Ls = list(range(1, hi + 1)) if opt else list(range(4, hi + 1))
    else:
        hi = 3 if tier == 'quick' else 4
        Ls = list(range(1, hi + 1)) if opt else list(range(2, hi + 1))
    L = draw(st.sampled_from(Ls[::-1]))
    return {'variant': variant, 'optimize': opt, 'L': L, 'struct': draw(st.sampled_from(STRUCTS)), 'seed': draw(st.integers(0, 10**6))}


def enum_all_L(tier):
    """Every orbital count of the documented domain up to reach, both paths, two coefficient structures."""
    hi_s = 7 if tier == 'quick' else 9
    hi_p = 4 if tier == 'quick' else 5
    for struct in (['complex'] if tier == 'quick' else ['complex', 'masked']):
        for L in range(1, hi_s + 1):
            yield {'variant': 'spinless', 'optimize': True, 'L': L, 'struct': struct, 'seed': 100 + L}
        for L in range(4, hi_s + 1):
            yield {'variant': 'spinless', 'optimize': False, 'L': L, 'struct': struct, 'seed': 200 + L}
        for L in range(1, hi_p + 1):
            yield {'variant': 'spin', 'optimize': True, 'L': L, 'struct': struct, 'seed': 300 + L}
        for L in range(2, hi_p + 2):
            yield {'variant': 'spin', 'optimize': False, 'L': L, 'struct': struct, 'seed': 400 + L}


# ---- orbital gauge transformation ---------------------------------------------------------


def unitary2(kind, seed):
    rng = np.random.default_rng(seed)
    if kind == 'haar':
        X = rng.normal(size=(2, 2)) + 1j * rng.normal(size=(2, 2))
        Q, R = np.linalg.qr(X)
        return Q * (np.diag(R) / np.abs(np.diag(R)))
    if kind == 'rotation':
        th = rng.uniform(0, 2 * np.pi)
        return np.array([[np.cos(th), -np.sin(th)], [np.sin(th), np.cos(th)]])
    if kind == 'permutation':
        return np.array([[0., 1.], [1., 0.]])
    if kind == 'phases':
        return np.diag(np.exp(1j * rng.uniform(0, 2 * np.pi, size=2)))
    if kind == 'identity':
        return np.identity(2)
    raise ValueError(kind)


def check_gauge(case, rec):
    L = case['L']; i = case['i']
    t, v = coefficients(L, case['struct'], case['seed'])
    t = np.asarray(t, dtype=complex); v = np.asarray(v, dtype=complex)
    u2 = unitary2(case['ukind'], case['useed'])
    u = np.identity(L, dtype=complex)
    u[i:i + 2, i:i + 2] = u2
    t_rot = np.einsum('ca,db,cd->ab', u, u.conj(), t)
    v_rot = np.einsum('ea,fb,gc,hd,efgh->abcd', u, u, u.conj(), u.conj(), v)
    h = ptn.molecular_hamiltonian_mpo(t, v, optimize=False)
    h_rot = ptn.molecular_hamiltonian_mpo(t_rot, v_rot, optimize=False)
    # the recipe swaps site tensors between the two explicit MPOs, so they must share their bond layout (the explicit
    # construction does not look at the coefficient values; its layout depends on L only)
    require(h.bond_dims == h_rot.bond_dims and all(np.array_equal(p, q) for p, q in zip(h.qD, h_rot.qD)),
            'explicit MPOs of the original and of the rotated coefficients have different bond layouts: the gauge transformation cannot relate them',
            original=h.bond_dims, rotated=h_rot.bond_dims)
    h.A[i] = np.copy(h_rot.A[i]); h.A[i + 1] = np.copy(h_rot.A[i + 1])
    # other Hamiltonians built in between must not matter: `h` carries its own node bookkeeping
    other = case.get('interleave')
    if other:
        rng_o = np.random.default_rng(case['seed'] + 1)
        Lo = other[1]
        to = rng_o.normal(size=(Lo, Lo)); vo = rng_o.normal(size=(Lo, Lo, Lo, Lo))
        if other[0] == 'spin':
            ptn.spin_molecular_hamiltonian_mpo(to, vo, optimize=False)
        elif other[0] == 'spinless_opt':
            ptn.molecular_hamiltonian_mpo(to, vo, optimize=True)
        else:
            ptn.molecular_hamiltonian_mpo(to, vo, optimize=False)
        rec.label('interleaved_' + other[0])
    v_l, v_r = ptn.molecular_hamiltonian_orbital_gauge_transform(h, u2, i)
    D = h.bond_dims
    require(v_l.shape == (D[i], D[i]) and v_r.shape == (D[i + 2], D[i + 2]), 'gauge matrices have the wrong shape',
            v_l=v_l.shape, v_r=v_r.shape, D=D)
    A_i = np.einsum('ab,stbr->star', v_l, h.A[i])
    A_j = np.einsum('ab,stlb->stla', v_r, h.A[i + 1])
    W = [np.asarray(a, dtype=complex) for a in h.A]
    W[i] = A_i; W[i + 1] = A_j
    got = mpo_to_mat(W)
    want = mpo_to_mat([np.asarray(a, dtype=complex) for a in h_rot.A])
    scale = max(1.0, np.max(np.abs(want)))
    err = np.max(np.abs(got - want))
    require(err <= 1e-10 * scale * L, 'gauge-transformed MPO differs from the MPO of the rotated coefficients', err=err, scale=scale, i=i, L=L)
    # and the rotated-coefficient MPO is the rotated operator: compare with the Fock reference of the rotated coefficients
    Href = ref.molecular(t_rot, v_rot).toarray()
    e2 = np.max(np.abs(want - Href))
    require(e2 <= 1e-10 * scale * L, 'MPO of the rotated coefficients differs from its Fock-space reference', err=e2)
    rec.metric('gauge_err', err / scale)
    rec.label('L=%d' % L, 'i=%s' % ('first' if i == 0 else ('last' if i == L - 2 else 'interior')), 'u_' + case['ukind'], 'struct_' + case['struct'])
    rec.nontrivial = bool(case['ukind'] != 'identity' and np.any(v != 0))


@st.composite
def gen_gauge(draw, tier):
    L = draw(st.sampled_from([7, 6, 5, 4, 8] if tier == 'quick' else [7, 8, 9, 6, 5, 4]))
    inter = draw(st.sampled_from([None, None, 'spinless', 'spinless', 'spin', 'spinless_opt']))
    if inter is not None:
        inter = [inter, draw(st.sampled_from([x for x in ([2, 3] if inter == 'spin' else [4, 5, 6, 7]) if x != L]))]
    return {'interleave': inter, 'L': L, 'i': draw(st.sampled_from(list(range(L - 1)))), 'struct': draw(st.sampled_from(['complex', 'real', 'masked', 'symmetric'])),
            'seed': draw(st.integers(0, 10**6)), 'ukind': draw(st.sampled_from(['haar', 'haar', 'haar', 'phases', 'rotation', 'permutation', 'identity'])),
            'useed': draw(st.integers(0, 10**6))}


PARTS = [
    Part('every_L', check_construction, enum=enum_all_L, workers={'quick': 8, 'thorough': 16}, exhaustive=False,
         doc='every orbital count of the documented domain up to reach, both build paths'),
    Part('construction', check_construction, strategy=gen_construction, n={'quick': 30, 'thorough': 300}, workers={'quick': 4, 'thorough': 16}, shrink=False),
    Part('gauge', check_gauge, strategy=gen_gauge, n={'quick': 45, 'thorough': 300}, workers={'quick': 4, 'thorough': 16}, shrink=False),
]
