"""C11  Block-sparse QR is an exact, isometric, charge-respecting factorization."""
import itertools
import numpy as np
from hypothesis import strategies as st

import pytenet as ptn
from core import Part, require
from gen_qn import charge_vectors, block_matrix, FLOAT_STYLES
from oracle_dense import mat_mask_violation

ID = 'C11'
RULE = ('cases = (row charges q0, column charges q1, entry seed, entry style); enumerated exhaustively for all '
        'q0 in {0,1,2}^m, q1 in {0,1,2}^n, m,n<=3 (thorough: <=4) x 4 entry styles, plus Hypothesis-generated '
        'charge vectors up to 12x12 (small / constant / +-2^20 / encoded pairs / disjoint; sorted, reverse sorted, unsorted). '
        'Non-trivial: >= 2 shared charges, or one shared charge whose block is at least 2x2. Distinct = distinct descriptor hash.')
ASSUME = ['float64 arithmetic; tolerances 1e-12 relative to ||A||',
          'charges are passed as NumPy integer arrays, as every caller in pytenet does']

TOL = 1e-12



def _charge_forms(q0, q1, seed):
    """The same charge vectors in another integer dtype if every value fits: uint8 / uint16 for non-negative charges, int16 otherwise."""
    k = seed % 4
    allq = np.concatenate([q0, q1])
    if k == 1 and allq.min() >= 0 and allq.max() < 120:
        return q0.astype(np.uint8), q1.astype(np.uint8)
    if k == 2 and allq.min() >= 0 and allq.max() < 30000:
        return q0.astype(np.uint16), q1.astype(np.uint16)
    if k == 3 and np.abs(allq).max() < 16000:
        return q0.astype(np.int16), q1.astype(np.int16)
    return q0, q1


def check_qr(case, rec):
    q0 = np.array(case['q0'], dtype=int)
    q1 = np.array(case['q1'], dtype=int)
    A = block_matrix(q0, q1, case['seed'], case['style'])
    m, n = A.shape
    A0 = A.copy(); q0c = q0.copy(); q1c = q1.copy()
    # charges also as unsigned / narrow integer arrays when their values allow it
    qa, qb = _charge_forms(q0, q1, case['seed'])
    if qa.dtype != q0.dtype:
        rec.label('charge_dtype_' + str(qa.dtype))
    Q, R, qi = ptn.qr(A, qa, qb)
    # the factors are judged after the library has been used again (same and different charge layout): results must not live
    # in storage that later calls reuse
    ptn.qr(A[::-1, ::-1].copy(), q0[::-1].copy(), q1[::-1].copy())
    ptn.qr(block_matrix(np.array([0, 1]), np.array([1, 0, 1]), 7, 'real'), np.array([0, 1]), np.array([1, 0, 1]))
    require(np.array_equal(A, A0) and A.dtype == A0.dtype, 'qr modified its input matrix')
    require(np.array_equal(q0, q0c) and np.array_equal(q1, q1c), 'qr modified its charge arguments')
    qi = np.asarray(qi)
    shared = np.intersect1d(q0, q1)
    require(Q.ndim == 2 and R.ndim == 2 and qi.ndim == 1, 'wrong output ranks')
    k = Q.shape[1]
    require(Q.shape == (m, k) and R.shape == (k, n) and len(qi) == k,
            'inconsistent output sizes', Q=Q.shape, R=R.shape, qi=len(qi))
    require(k >= 1, 'intermediate dimension zero')
    nrmA = np.linalg.norm(A)
    err = np.linalg.norm(Q @ R - A)
    require(err <= TOL * max(nrmA, 1e-300) if nrmA > 0 else err == 0, 'Q R != A', err=err, nrm=nrmA)
    iso = np.linalg.norm(Q.conj().T @ Q - np.identity(k))
    require(iso <= TOL * max(1, k), 'Q does not have orthonormal columns', err=iso)
    vq = mat_mask_violation(Q, q0, qi)
    vr = mat_mask_violation(R, qi, q1)
    require(vq == 0, 'Q not block sparse under (q0, qinterm)', max_entry=vq)
    require(vr == 0, 'R not block sparse under (qinterm, q1)', max_entry=vr)
    rec.metric('qr_err', err / nrmA if nrmA > 0 else 0)
    rec.metric('iso_err', iso)
    if len(shared) == 0:
        rec.label('dummy_branch')
        require(k == 1, 'disjoint charges must give intermediate dimension one', k=k)
        require(np.linalg.norm(R) == 0, 'R must vanish for disjoint charges')
    else:
        require(k <= min(m, n), 'intermediate dimension exceeds min(m, n)', k=k)
        # every intermediate charge is a shared one, with multiplicity min(rows, cols) of its block
        for c in shared:
            r = int(np.sum(q0 == c)); s = int(np.sum(q1 == c))
            require(int(np.sum(qi == c)) == min(r, s), 'wrong multiplicity of an intermediate charge',
                    charge=int(c), got=int(np.sum(qi == c)), want=min(r, s))
        require(set(qi.tolist()) <= set(shared.tolist()), 'intermediate charge not shared by rows and columns')
    # labels
    s0 = bool(np.all(np.diff(q0) >= 0)); s1 = bool(np.all(np.diff(q1) >= 0))
    rec.label(('sorted0' if s0 else 'unsorted0') + '_' + ('sorted1' if s1 else 'unsorted1'))
    big = False; wide = False
    for c in shared:
        r = int(np.sum(q0 == c)); s = int(np.sum(q1 == c))
        if r >= 2 and s >= 2:
            big = True
        if s > r:
            wide = True
    if wide:
        rec.label('wide_block')
    if nrmA > 0 and len(shared) > 0:
        rk = np.linalg.matrix_rank(A)
        if rk < sum(min(int(np.sum(q0 == c)), int(np.sum(q1 == c))) for c in shared):
            rec.label('rank_deficient')
    if np.iscomplexobj(A):
        rec.label('complex')
    if m == 1 or n == 1:
        rec.label('vector_shape')
    rec.nontrivial = bool(nrmA > 0 and (len(shared) >= 2 or big))


_EX_STYLES = ['complex', 'real', 'dupcols', 'zeroblock']


def enum_small(tier):
    top = 3 if tier == 'quick' else 4
    for m in range(1, top + 1):
        for n in range(1, top + 1):
            for q0 in itertools.product((0, 1, 2), repeat=m):
                for q1 in itertools.product((0, 1, 2), repeat=n):
                    for si, style in enumerate(_EX_STYLES):
                        yield {'q0': list(q0), 'q1': list(q1), 'seed': 17 * m + 3 * n + si, 'style': style}


@st.composite
def gen_case(draw):
    q0, q1 = draw(charge_vectors())
    return {'q0': q0, 'q1': q1, 'seed': draw(st.integers(0, 2**31 - 1)),
            'style': draw(st.sampled_from(FLOAT_STYLES))}


PARTS = [
    Part('exhaustive_small', check_qr, enum=enum_small, workers={'quick': 4, 'thorough': 16}, exhaustive=True,
         doc='all charge layouts over {0,1,2} for m,n<=3 (quick) / <=4 (thorough) x 4 entry styles'),
    Part('generated', check_qr, strategy=lambda tier: gen_case(),
         n={'quick': 500, 'thorough': 10000}, workers={'quick': 4, 'thorough': 16},
         doc='Hypothesis-generated charge vectors up to 12x12'),
    Part('fuzz_generated', None, fuzz_of='generated', runs={'quick': 0, 'thorough': 40000}, workers={'quick': 0, 'thorough': 4},
         doc='atheris campaign over charge vectors and entry styles'),
]
