"""C18  Bipartite matching is maximum and the derived vertex cover is minimum."""
import numpy as np
from hypothesis import strategies as st

from pytenet.bipartite_graph import BipartiteGraph, HopcroftKarp, minimum_vertex_cover
from core import Part, require, Violation

ID = 'C18'
RULE = ('exhaustive part: every edge set of every partition a x b with a,b<=4 (quick; two edge orders) and additionally '
        'a,b<=5 (thorough), enumerated as bitmasks in chunks; generated part: graphs up to 80x80 of all densities (vertex indices as Python integers or NumPy int64 / int32 / intp / uint16 scalars) with duplicate '
        'edges, shuffled edge order and long-augmenting-path families (ladders, staircases, crowns). Non-trivial: >= 2 edges and '
        '(optimum < min(a,b) or the input-order greedy matching is not maximum, i.e. an augmenting path is needed). Small cases also call one solver object twice.')
ASSUME = ['optimum for <=5x5 from an independent bitmask dynamic programme; for larger graphs from an independent Kuhn '
          'augmenting-path implementation plus weak duality (a valid cover and a valid matching of equal size certify each other)']


def dp_optimum(a, adjmask):
    """Maximum matching size by DP over subsets of V (independent of the code under test)."""
    best = {0: 0}
    # process u one at a time: states = set of used-v masks -> implicitly max size = number matched
    states = {0}
    # sizes equal popcount of mask, so the set of reachable masks is enough
    for u in range(a):
        new = set(states)
        m = adjmask[u]
        for s in states:
            free = m & ~s
            while free:
                bit = free & -free
                new.add(s | bit)
                free ^= bit
        states = new
    return max(bin(s).count('1') for s in states)


def kuhn_optimum(a, b, adj):
    match_v = [-1] * b

    def try_u(u, seen):
        for v in adj[u]:
            if v in seen:
                continue
            seen.add(v)
            if match_v[v] == -1 or try_u(match_v[v], seen):
                match_v[v] = u
                return True
        return False
    import sys
    sys.setrecursionlimit(max(sys.getrecursionlimit(), 10000))
    return sum(1 for u in range(a) if try_u(u, set()))


def greedy_size(a, b, edges):
    used_u = set(); used_v = set()
    for (u, v) in edges:
        if u not in used_u and v not in used_v:
            used_u.add(u); used_v.add(v)
    return len(used_u)


def judge(a, b, edges, optimum=None, given=None):
    """Returns (optimum, nontrivial). Raises Violation. `given` is the edge collection as handed to the library (container / index
    type variants of `edges`); the oracle works on the plain list of tuples."""
    eset = set(edges)
    given = edges if given is None else given
    g = BipartiteGraph(a, b, given)
    matching = HopcroftKarp(g)()
    mu = [u for u, _ in matching]; mv = [v for _, v in matching]
    require(all((u, v) in eset for (u, v) in matching), 'matching contains a non-edge', a=a, b=b, edges=edges, matching=matching)
    require(len(set(mu)) == len(mu) and len(set(mv)) == len(mv), 'matched edges share a vertex', a=a, b=b, edges=edges, matching=matching)
    if optimum is None:
        adj = [[] for _ in range(a)]
        for (u, v) in edges:
            adj[u].append(v)
        optimum = kuhn_optimum(a, b, adj)
    require(len(matching) == optimum, 'matching is not maximum', a=a, b=b, edges=edges, got=len(matching), optimum=optimum)
    # the solver object resets its working data on every call: a repeated call returns a maximum matching again
    # (judged on a second solver, called twice, so that the cost stays one extra run on the small cases only)
    if a * b <= 25 or len(edges) % 4 == 0:
        hk = HopcroftKarp(g)
        m1 = hk()
        m2 = hk()
        require(len(m1) == optimum and len(m2) == optimum, 'repeated call of the same HopcroftKarp object does not return a maximum matching',
                a=a, b=b, edges=edges, first=len(m1), second=len(m2), optimum=optimum)
        require(all((u, v) in eset for (u, v) in m2) and len({u for u, _ in m2}) == len(m2) and len({v for _, v in m2}) == len(m2),
                'repeated call returns an invalid matching', a=a, b=b, edges=edges, matching=m2)
    g2 = BipartiteGraph(a, b, given)
    uc, vc = minimum_vertex_cover(g2)
    require(all(0 <= u < a for u in uc) and all(0 <= v < b for v in vc), 'cover vertex out of range', uc=uc, vc=vc)
    require(len(set(uc)) == len(uc) and len(set(vc)) == len(vc), 'cover lists a vertex twice', uc=uc, vc=vc)
    ucs = set(uc); vcs = set(vc)
    require(all((u in ucs) or (v in vcs) for (u, v) in eset), 'cover misses an edge', a=a, b=b, edges=edges, uc=uc, vc=vc)
    require(len(uc) + len(vc) == optimum, 'cover is not minimum (Koenig)', a=a, b=b, edges=edges, uc=uc, vc=vc, optimum=optimum)
    nontrivial = len(eset) >= 2 and (optimum < min(a, b) or greedy_size(a, b, edges) < optimum)
    return optimum, nontrivial


def check_chunk(case, rec):
    a, b, lo, hi, order = case['a'], case['b'], case['lo'], case['hi'], case['order']
    pairs = [(u, v) for u in range(a) for v in range(b)]
    if order == 'rev':
        pairs = pairs[::-1]
    n = 0; nt = 0; aug = 0
    for mask in range(lo, hi):
        edges = [pairs[k] for k in range(a * b) if (mask >> k) & 1]
        adjmask = [0] * a
        for (u, v) in edges:
            adjmask[u] |= 1 << v
        opt = dp_optimum(a, adjmask)
        try:
            _, nontriv = judge(a, b, edges, optimum=opt)
        except Violation as e:
            raise Violation(str(e), case={'a': a, 'b': b, 'lo': mask, 'hi': mask + 1, 'order': order})
        except Exception as e:  # exception inside pytenet: narrow the replay to this graph
            e.case_override = {'a': a, 'b': b, 'lo': mask, 'hi': mask + 1, 'order': order}
            raise
        n += 1
        nt += bool(nontriv)
        aug += bool(len(edges) >= 2 and greedy_size(a, b, edges) < opt)
    rec.bulk(n, nt, {f'{a}x{b}_{order}': n, 'needs_augmenting_path': aug})


def enum_chunks(tier):
    top = 4 if tier == 'quick' else 5
    chunk = 4096
    for a in range(1, top + 1):
        for b in range(1, top + 1):
            orders = ['fwd', 'rev'] if a * b <= 16 else ['fwd']
            for order in orders:
                total = 1 << (a * b)
                for lo in range(0, total, chunk):
                    yield {'a': a, 'b': b, 'lo': lo, 'hi': min(total, lo + chunk), 'order': order}


# ---- generated graphs -----------------------------------------------------------------


def family_edges(kind, a, b, seed, density):
    rng = np.random.default_rng(seed)
    edges = []
    if kind == 'random':
        M = rng.random((a, b)) < density
        edges = [(int(u), int(v)) for u, v in zip(*np.nonzero(M))]
    elif kind == 'ladder':
        # u_i -- v_i and u_i -- v_{i+1}: greedy in a bad order needs one long augmenting path
        n = min(a, b)
        for i in range(n):
            if i + 1 < b:
                edges.append((i, i + 1))
            edges.append((i, i))
    elif kind == 'staircase':
        n = min(a, b)
        for i in range(n):
            for j in range(i, min(b, i + 1 + int(density * 4))):
                edges.append((i, j))
    elif kind == 'crown':
        n = min(a, b)
        edges = [(i, j) for i in range(n) for j in range(n) if i != j]
    elif kind == 'hub':
        # few v-vertices adjacent to everything: optimum < min(a, b)
        k = max(1, int(density * min(a, b) / 2))
        edges = [(u, v) for u in range(a) for v in range(min(k, b))]
    elif kind == 'empty':
        edges = []
    elif kind == 'sparse_chain':
        # u_i -- v_i, u_{i+1} -- v_i  (path graph)
        n = min(a, b)
        for i in range(n):
            edges.append((i, i))
            if i + 1 < a:
                edges.append((i + 1, i))
    # duplicates and order
    if edges and rng.random() < 0.5:
        dup = [edges[int(k)] for k in rng.integers(0, len(edges), size=max(1, len(edges) // 4))]
        edges = edges + dup
    mode = rng.integers(0, 3)
    if mode == 1:
        edges = edges[::-1]
    elif mode == 2:
        edges = [edges[int(k)] for k in rng.permutation(len(edges))]
    return edges


def check_generated(case, rec):
    a, b = case['a'], case['b']
    edges = family_edges(case['kind'], a, b, case['seed'], case['density'])
    if case.get('itype'):
        # vertex indices as NumPy integer scalars (what np.argwhere / np.nonzero / scipy.sparse hand out), incl. 32-bit ones and
        # vertex counts beyond 32 / 64
        T = {'int64': np.int64, 'int32': np.int32, 'intp': np.intp, 'uint16': np.uint16}[case['itype']]
        edges = [(T(u), T(v)) for (u, v) in edges]
        rec.label('index_type_' + case['itype'])
    # the edge collection in the Sequence forms the constructor documents (`edges: Sequence[tuple[int, int]]`): list of tuples,
    # tuple of tuples, list of lists, (E, 2) integer array. One-shot iterators are not Sequences and are not part of the domain.
    cform = case['seed'] % 4
    given = edges
    if cform == 1:
        given = tuple(edges)
    elif cform == 2:
        given = [list(e) for e in edges]
    elif cform == 3 and len(edges) > 0 and not case.get('itype'):
        given = np.array(edges, dtype=int).reshape(-1, 2)
    if cform:
        rec.label('edge_container_%d' % cform)
    opt, nontriv = judge(a, b, [(int(u), int(v)) for (u, v) in edges], given=given)
    rec.label('family_' + case['kind'])
    if len(set(edges)) < len(edges):
        rec.label('duplicate_edges')
    if opt < min(a, b):
        rec.label('deficient')
    if len(edges) >= 2 and greedy_size(a, b, edges) < opt:
        rec.label('needs_augmenting_path')
    if max(a, b) > 30:
        rec.label('large')
    rec.nontrivial = bool(nontriv)


@st.composite
def gen_case(draw):
    kind = draw(st.sampled_from(['random', 'random', 'random', 'ladder', 'staircase', 'crown', 'hub', 'empty', 'sparse_chain']))
    return {'kind': kind, 'a': draw(st.integers(1, 80)), 'b': draw(st.integers(1, 80)),
            'itype': draw(st.sampled_from([None, None, 'int64', 'int32', 'intp', 'uint16'])),
            'seed': draw(st.integers(0, 2**31 - 1)),
            'density': draw(st.sampled_from([0.0, 0.02, 0.05, 0.1, 0.2, 0.5, 0.8, 1.0]))}


def check_explicit(case, rec):
    """Explicit edge list (used by Hypothesis for shrinkable small graphs and for regression replays)."""
    a, b = case['a'], case['b']
    edges = [tuple(e) for e in case['edges']]
    opt, nontriv = judge(a, b, edges)
    rec.nontrivial = bool(nontriv)
    if len(set(edges)) < len(edges):
        rec.label('duplicate_edges')


@st.composite
def gen_explicit(draw):
    a = draw(st.integers(1, 9)); b = draw(st.integers(1, 9))
    edges = draw(st.lists(st.tuples(st.integers(0, a - 1), st.integers(0, b - 1)), max_size=30))
    return {'a': a, 'b': b, 'edges': [list(e) for e in edges]}


PARTS = [
    Part('exhaustive', check_chunk, enum=enum_chunks, workers={'quick': 8, 'thorough': 16}, exhaustive=True,
         doc='all edge sets for all partitions up to 4x4 (quick, two edge orders) / 5x5 (thorough)'),
    Part('families', check_generated, strategy=lambda tier: gen_case(),
         n={'quick': 400, 'thorough': 3000}, workers={'quick': 4, 'thorough': 16},
         doc='random graphs of all densities and adversarial families up to 80x80, vertex indices as Python or NumPy integers'),
    Part('edge_lists', check_explicit, strategy=lambda tier: gen_explicit(),
         n={'quick': 400, 'thorough': 8000}, workers={'quick': 4, 'thorough': 16},
         doc='explicit shrinkable edge lists (with duplicates) up to 9x9'),
    Part('fuzz_edge_lists', None, fuzz_of='edge_lists', runs={'quick': 0, 'thorough': 60000}, workers={'quick': 0, 'thorough': 8},
         doc='atheris campaign over explicit edge lists (pure-Python matching code is fully instrumented)'),
]
