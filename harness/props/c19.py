"""C19  Operands are never modified and results share no state with them."""
import copy
import warnings
import numpy as np
from hypothesis import strategies as st

import pytenet as ptn
from core import Part, require
from histories import history, run_history
from gen_qn import charge_vectors, block_matrix
from gen_graph import (chain_list, build_chains, tree_list, build_tree, automaton, build_automaton, layered_graph, build_graph,
                       physical_charges, random_opmap, OID_ID)
from props.c16 import snapshot as graph_snapshot
from props.c12 import gen_tensor_case, twosite_tensor

ID = 'C19'
RULE = ('cases = (a) the operation histories of C02 extended by pure queries (vdot, norm, operator_average, operator_inner_product, operator_density_average, as_vector, as_matrix dense/sparse, '
        'bond_dims) and by mutations of fresh results (zero_qnumbers, A[0] *= 2, A[-1][...] = nan, qD += 1, orthonormalize, qd += 3): byte-level snapshots (dtype, shape, bytes of qd, every qD and every '
        'tensor) of every pooled object except the documented in-place target are compared after every step, every fresh result is tested with numpy.shares_memory against all arrays of all other '
        'pooled objects, and operands are compared again after the result was mutated; (b) direct calls of the decompositions and Krylov routines with array-capturing maps; (c) graph / MPO construction '
        'from chains, trees, automata and graphs with deep structural snapshots of the inputs. Non-trivial: a result was mutated while its operands were still pooled (a) / an input of size >= 2 (b, c).')
ASSUME = ['aliasing through objects the harness does not hold (e.g. module-level caches) cannot be observed; all public attributes (qd, qD, A, nodes, edges, chains, trees) are covered']


def check_history(case, rec):
    run_history(case, rec, 'c19')


def snap(a):
    a = np.asarray(a)
    return (a.dtype.str, a.shape, a.tobytes())


def check_direct(case, rec):
    """Decompositions and Krylov routines called directly: arguments bit-for-bit unchanged (the no-sharing clause of the property only speaks about returned MPS / MPO / graphs)."""
    q0 = np.array(case['q0'], dtype=int); q1 = np.array(case['q1'], dtype=int)
    A = block_matrix(q0, q1, case['seed'], case['style'])
    s0 = (snap(A), snap(q0), snap(q1))
    Q, R, qi = ptn.qr(A, q0, q1)
    require((snap(A), snap(q0), snap(q1)) == s0, 'qr modified an argument')
    tol = case['tol']
    u, s, v, q = ptn.split_matrix_svd(A, q0, q1, tol)
    require((snap(A), snap(q0), snap(q1)) == s0, 'split_matrix_svd modified an argument')
    sv = np.abs(np.random.default_rng(case['seed']).normal(size=6))
    ssn = snap(sv)
    ptn.retained_bond_indices(sv, tol)
    require(snap(sv) == ssn, 'retained_bond_indices modified its argument')
    # two-site tensor split
    tc = case['tensor']
    T = twosite_tensor(tc)
    qd0 = np.array(tc['qd0']); qd1 = np.array(tc['qd1']); ql = np.array(tc['ql']); qr = np.array(tc['qr'])
    st0 = (snap(T), snap(qd0), snap(qd1), snap(ql), snap(qr))
    B0, B1, qb = ptn.split_mps_tensor(T, qd0, qd1, [ql, qr], tc['distr'], tc['tolx'])
    require((snap(T), snap(qd0), snap(qd1), snap(ql), snap(qr)) == st0, 'split_mps_tensor modified an argument')
    sb = (snap(B0), snap(B1))
    ptn.merge_mps_tensor_pair(B0, B1)
    require((snap(B0), snap(B1)) == sb, 'merge_mps_tensor_pair modified an argument')
    # Krylov routines with array-capturing maps
    n = max(2, min(8, len(q0)))
    rng = np.random.default_rng(case['seed'] + 1)
    X = rng.normal(size=(n, n)) + 1j * rng.normal(size=(n, n))
    Hm = X + X.conj().T
    vec = rng.normal(size=n) + 1j * rng.normal(size=n)
    captured = []

    def Af(x):
        captured.append((x, x.copy()))
        return Hm @ x
    sk = (snap(Hm), snap(vec))
    with warnings.catch_warnings():
        warnings.simplefilter('ignore')
        m = 1 + case['seed'] % n
        ptn.lanczos_iteration(Af, vec, m)
        ptn.arnoldi_iteration(Af, vec, m)
        ptn.eigh_krylov(Af, vec, m, 1)
        ptn.expm_krylov(Af, vec, 0.3j, m, hermitian=True)
        ptn.expm_krylov(Af, vec, 0.3, m, hermitian=False)
    require((snap(Hm), snap(vec)) == sk, 'a Krylov routine modified the matrix or the start vector')
    rec.nontrivial = bool(len(q0) >= 2 and len(q1) >= 2)
    rec.label('direct_calls')


@st.composite
def gen_direct(draw, tier):
    q0, q1 = draw(charge_vectors(mmax=8, nmax=8))
    return {'q0': q0, 'q1': q1, 'seed': draw(st.integers(0, 2**31 - 1)), 'style': draw(st.sampled_from(['complex', 'real', 'zeroblock'])),
            'tol': draw(st.sampled_from([0.0, 1e-8, 0.1, 0.5])), 'tensor': draw(gen_tensor_case())}


def check_constructor_args(case, rec):
    """
    The constructors' arguments are operands too: building an MPS / MPO from NumPy arrays (for instance from another
    object's qd / qD lists), then mutating the new object, must leave the arguments bit-for-bit unchanged.
    """
    from histories import snapshot, shares_memory
    desc = case['obj']
    qd = np.array(desc['qd'], dtype=np.int64)
    qD = [np.array(q, dtype=np.int64) for q in desc['qD']]
    s0 = (snap(qd), [snap(q) for q in qD])
    cls = ptn.MPS if case['cls'] == 'mps' else ptn.MPO
    rng = np.random.default_rng(desc['seed'])
    if case['via'] == 'arrays':
        obj = cls(qd, qD, fill='random', rng=rng)
        args = [qd] + qD
        donor = None
    else:
        # clone the charge structure of an existing object, as user code does: MPS(psi.qd, psi.qD, fill='random')
        donor = cls(desc['qd'], desc['qD'], fill='random', rng=rng)
        dsnap = snapshot(donor)
        obj = cls(donor.qd, donor.qD, fill=case['fill'])
        args = [donor.qd] + list(donor.qD)
    for a in [obj.qd] + list(obj.qD) + list(obj.A):
        for b in args:
            require(not (a.size and b.size and np.shares_memory(a, b)), 'constructed object shares memory with a constructor argument')
    mk = case['mutation']
    try:
        if mk == 0:
            obj.zero_qnumbers()
        elif mk == 1:
            for q in obj.qD:
                q += 5
            obj.qd += 1
        elif mk == 2:
            obj.orthonormalize(mode='left'); obj.zero_qnumbers()
        elif mk == 3:
            obj.A[0][...] = 7
            obj.qD[0][...] = 9
    except Exception:
        pass
    if donor is None:
        require((snap(qd), [snap(q) for q in qD]) == s0, 'mutating the constructed object altered the constructor arguments (qd / qD arrays)', mutation=mk)
    else:
        require(snapshot(donor) == dsnap, 'mutating an object built from another object\'s qd / qD altered that object', mutation=mk)
    rec.label('cls_' + case['cls'], 'via_' + case['via'], 'mutation_%d' % mk)
    rec.nontrivial = bool(any(x != 0 for q in desc['qD'] for x in q) or any(x != 0 for x in desc['qd']))


@st.composite
def gen_constructor_args(draw, tier):
    from gen_qn import mps_desc, mpo_desc
    cls = draw(st.sampled_from(['mps', 'mpo']))
    obj = draw(mps_desc(Lmax=4, Dmax=3)) if cls == 'mps' else draw(mpo_desc(Lmax=3, Dmax=3))
    return {'cls': cls, 'obj': obj, 'via': draw(st.sampled_from(['arrays', 'clone'])), 'fill': draw(st.sampled_from([1.0, 'random', 0.5])),
            'mutation': draw(st.integers(0, 3))}


def chain_snap(chains):
    return [(list(c.oids), list(c.qnums), c.coeff, c.istart) for c in chains]


def tree_snap(t):
    def rec(node):
        return (node.qnum, [(e.oid, e.coeff, rec(e.node)) for e in node.children])
    return (t.istart, rec(t.root))


def aut_snap(a):
    return ({k: (n.nid, n.qnum, list(n.eids[0]), list(n.eids[1])) for k, n in a.nodes.items()},
            {k: (e.eid, list(e.nids), [tuple(t) for t in e.opics] if not callable(e.opics) else id(e.opics), e.active if not callable(e.active) else id(e.active))
             for k, e in a.edges.items()}, list(a.nid_terminal))


def check_graph_inputs(case, rec):
    kind = case['kind']
    if kind == 'chains':
        cl = case['obj']
        if all(c['coeff'] == 0 for c in cl['chains']):
            rec.skip('all coefficients zero')
            return
        chains = build_chains(cl)
        s0 = chain_snap(chains)
        g = ptn.OpGraph.from_opchains(chains, cl['L'], OID_ID)
        require(chain_snap(chains) == s0, 'from_opchains modified its chains')
        for c in chains:
            c.padded(cl['L'], OID_ID)
            c.as_matrix({k: np.identity(1) for k in (-2, -1, 0, 1, 2, 3, 4, 5)})
        require(chain_snap(chains) == s0, 'padded / as_matrix modified a chain')
        g.simplify()
        require(chain_snap(chains) == s0, 'simplifying the compiled graph modified the chains')
        rec.nontrivial = len(chains) >= 2
    elif kind == 'trees':
        tl = case['obj']
        trees = [build_tree(t) for t in tl['trees']]
        s0 = [tree_snap(t) for t in trees]
        g = ptn.OpGraph.from_optrees(trees, tl['L'], OID_ID)
        require([tree_snap(t) for t in trees] == s0, 'from_optrees modified its trees')
        for t in trees:
            t.height()
            t.as_matrix({k: np.identity(1) for k in (-2, -1, 0, 1, 2, 3, 4, 5)})
        require([tree_snap(t) for t in trees] == s0, 'height / as_matrix modified a tree')
        rec.nontrivial = len(trees) >= 2
    elif kind == 'automaton':
        ad = case['obj']
        aut = build_automaton(ad)
        s0 = aut_snap(aut)
        g = ptn.OpGraph.from_automaton(aut, ad['L'])
        require(aut_snap(aut) == s0, 'from_automaton modified the automaton')
        g.flip(); g.simplify()
        require(aut_snap(aut) == s0, 'rewriting the unrolled graph modified the automaton')
        rec.nontrivial = len(ad['edges']) >= 2
    else:
        gd = case['obj']
        g = build_graph(gd)
        s0 = graph_snapshot(g)
        qd = physical_charges(gd['charged'], case['opseed'], gd['L'])
        opmap = random_opmap(qd, gd['charged'], case['opseed'] + 1)
        om0 = {k: v.copy() for k, v in opmap.items()}
        qd0 = list(qd)
        mpo = ptn.MPO.from_opgraph(qd, g, opmap, compute_nid_map=bool(case['opseed'] % 2))
        g.as_matrix(opmap); g.is_consistent(); g.length
        require(graph_snapshot(g) == s0, 'from_opgraph / as_matrix / is_consistent modified the graph')
        require(all(np.array_equal(opmap[k], om0[k]) for k in om0) and list(qd) == qd0, 'from_opgraph modified the operator map or the physical charges')
        # mutating the MPO must not reach back into the operator map or graph
        for a in mpo.A:
            a *= 3
        mpo.zero_qnumbers()
        require(graph_snapshot(g) == s0 and all(np.array_equal(opmap[k], om0[k]) for k in om0) and list(qd) == qd0,
                'mutating the MPO built by from_opgraph altered the graph, the operator map or the charge list')
        # a second graph added to a copy: the other graph is untouched (C16 judges the meaning)
        hd = gd
        if case['opseed'] % 3 == 0:
            # the other graph with node and edge ids disjoint from those of the first (nothing would have to be renamed except the
            # terminal nodes): it must still be left untouched and share no objects with the sum
            hd = dict(gd, nodes=[[n[0] + 1000] + list(n[1:]) for n in gd['nodes']],
                      edges=[[e[0] + 5000, e[1] + 1000, e[2] + 1000, e[3]] for e in gd['edges']],
                      term=[gd['term'][0] + 1000, gd['term'][1] + 1000])
            rec.label('add_disjoint_ids')
        h = build_graph(hd)
        hs = graph_snapshot(h)
        g2 = copy.deepcopy(g)
        g2.add(h)
        require(graph_snapshot(h) == hs, 'OpGraph.add modified the other graph')
        g2.flip(); g2.simplify()
        require(graph_snapshot(h) == hs and graph_snapshot(g) == s0, 'rewriting the sum graph altered an operand graph (shared node / edge objects)')
        rec.nontrivial = len(gd['edges']) >= 2
    rec.label('kind_' + kind)


@st.composite
def gen_graph_inputs(draw, tier):
    kind = draw(st.sampled_from(['chains', 'trees', 'automaton', 'graph', 'graph']))
    if kind == 'chains':
        obj = draw(chain_list(Lmax=6, nmax=6))
    elif kind == 'trees':
        obj = draw(tree_list(Lmax=5))
    elif kind == 'automaton':
        obj = draw(automaton(Lmax=5))
    else:
        obj = draw(layered_graph(Lmax=5, wmax=3))
    return {'kind': kind, 'obj': obj, 'opseed': draw(st.integers(0, 1000))}


PARTS = [
    Part('histories', check_history, strategy=lambda tier: history(tier, 'c19'), n={'quick': 120, 'thorough': 1200}, workers={'quick': 8, 'thorough': 16}),
    Part('constructor_args', check_constructor_args, strategy=gen_constructor_args, n={'quick': 150, 'thorough': 2000}, workers={'quick': 2, 'thorough': 16},
         doc='MPS / MPO constructors called with NumPy arrays or with another object\'s qd / qD; the new object is mutated afterwards'),
    Part('direct_calls', check_direct, strategy=gen_direct, n={'quick': 150, 'thorough': 2500}, workers={'quick': 2, 'thorough': 16}),
    Part('graph_inputs', check_graph_inputs, strategy=gen_graph_inputs, n={'quick': 150, 'thorough': 2500}, workers={'quick': 2, 'thorough': 16}),
]
