"""C02  Quantum-number block sparsity is an invariant of every operation sequence."""
from core import Part
from histories import history, run_history

ID = 'C02'
RULE = ('cases = histories: a model family (ising / xxz spin-1/2 / xxz spin-1 / bose-hubbard / fermi-hubbard with encoded charge pairs / random Hermitian MPO with generic charges), L 1..4 (5 thorough), '
        'an initial pool of sector-consistent random MPS and MPOs, then 3..10 (25 thorough) steps drawn from: new random MPS, Hamiltonian constructor, identity, from_vector, MPS +/-, apply_operator, '
        'MPO +/-/@, from_opchains -> from_opgraph, orthonormalize (both modes, MPS and MPO), compress (5 tolerances, both modes), merge + split_mps_tensor (3 distributions, tolerances), '
        'single/two-site TDVP (real / imaginary / complex dt, 1..6 Krylov iterations, split tolerances), single/two-site DMRG, zero_qnumbers. After every step every pooled object must satisfy the additive '
        'quantum number rule entry-wise with list lengths equal to tensor dimensions; in-place steps on non-zero states must keep the outer charges; an exception escaping a step is a violation. '
        'Non-trivial: >= 3 executed steps, >= 2 different in-place rule kinds applied to the same object, and a family with non-constant charges.')
ASSUME = ['steps whose documented precondition fails (incompatible boundary charges, zero state for compress/TDVP/DMRG, non-Hermitian operator for TDVP/DMRG) are skipped and counted',
          'bond dimensions are capped at 40 (steps that would exceed it are skipped)']


def check(case, rec):
    run_history(case, rec, 'c02')


PARTS = [
    Part('histories', check, strategy=lambda tier: history(tier, 'c02'), n={'quick': 250, 'thorough': 1500}, workers={'quick': 8, 'thorough': 16}),
    Part('fuzz_histories', None, fuzz_of='histories', runs={'quick': 0, 'thorough': 6000}, workers={'quick': 0, 'thorough': 8},
         doc='atheris campaign over operation histories (coverage feedback from pytenet)'),
]
