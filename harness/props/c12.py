"""C12  Block-sparse SVD split truncates exactly the smallest weights within tolerance."""
import numpy as np
from hypothesis import strategies as st

import pytenet as ptn
from core import Part, require
from gen_qn import charge_vectors, block_matrix, FLOAT_STYLES
from oracle_dense import mat_mask_violation, mps_mask_violation

ID = 'C12'
RULE = ('cases = block-sparse matrix (row/column charges up to 12x12 as in C11, plus strongly elongated sectors 2-3 x 24-30 in either orientation; entries random or built block-wise as '
        'U diag(s) V with a designed spectrum: decaying, nine decades per step, degenerate inside and across blocks, exact ties, rank deficient) x tolerance '
        '(0, uniform in [0,1), or exactly a cumulative weight of the designed spectrum); second part: two-site MPS tensors '
        'with charges x 3 singular value distributions x tolerance. Non-trivial: >= 1 singular value discarded, >= 1 kept and '
        '>= 2 shared charge blocks (matrix part) / a truncated split (tensor part).')
ASSUME = ['float64; identities judged to 1e-12 relative to ||A|| (squared quantities: ||A||^2)',
          'a tolerance within 1e-12 of a cumulative weight accepts both neighbouring truncation ranks (the statement is about real-number weights)']

TOL = 1e-12
SPECTRA = ['decay', 'flat', 'pairs', 'rankdef', 'crossdeg', 'steep', 'exact_ties', 'abyss']


def designed_matrix(q0, q1, seed, spectrum):
    """Block-wise U diag(s) V with prescribed singular values; returns (A, sorted designed singular values)."""
    rng = np.random.default_rng(seed)
    q0 = np.asarray(q0); q1 = np.asarray(q1)
    A = np.zeros((len(q0), len(q1)), dtype=complex)
    svals = []
    cplx = bool(rng.integers(0, 2))
    for bi, c in enumerate(np.intersect1d(q0, q1)):
        i = np.where(q0 == c)[0]; j = np.where(q1 == c)[0]
        r, s = len(i), len(j)
        k = min(r, s)
        if spectrum == 'decay':
            sv = 2.0 ** (-np.arange(k) - 0.37 * bi)
        elif spectrum == 'flat':
            sv = np.ones(k)
        elif spectrum == 'pairs':
            sv = np.array([1.0 / (1 + (t // 2)) for t in range(k)])
        elif spectrum == 'rankdef':
            sv = 1.0 / (1 + np.arange(k)); sv[k // 2 + (k % 2):] = 0
            if k == 1 and bi % 2 == 1:
                sv[:] = 0
        elif spectrum == 'crossdeg':
            sv = 1.0 / (1 + np.arange(k))      # same values in every block: degenerate across blocks
        elif spectrum == 'steep':
            sv = 10.0 ** (-3.0 * np.arange(k) - bi)
        elif spectrum == 'abyss':
            # singular values more than eight decades apart inside one block (where squaring the matrix loses the small ones)
            sv = 10.0 ** (-9.0 * np.arange(k) - bi)
        elif spectrum == 'exact_ties':
            # exactly repeated singular values: the block is a scaled partial permutation matrix (one entry per row / column),
            # so its singular values are the weights themselves, bit for bit
            pool = np.array([1.0, 0.5, 0.5, 0.25, 0.5, 1.0, 0.25, 0.125])
            sv = pool[(np.arange(k) + bi) % len(pool)]
            pr = rng.permutation(r)[:k]; pc = rng.permutation(s)[:k]
            blk = np.zeros((r, s), dtype=complex)
            ph = np.exp(2j * np.pi * rng.random(k)) if cplx else rng.choice([-1.0, 1.0], size=k)
            blk[pr, pc] = sv * ph
            A[np.ix_(i, j)] = blk
            svals += list(sv)
            continue
        else:
            raise ValueError(spectrum)

        def haar(n, kk):
            X = rng.normal(size=(n, kk)) + (1j * rng.normal(size=(n, kk)) if cplx else 0)
            Qm, Rm = np.linalg.qr(X)
            return Qm
        U = haar(r, k); V = haar(s, k).conj().T
        A[np.ix_(i, j)] = (U * sv) @ V
        svals += list(sv)
    if not cplx:
        A = A.real.copy()
    return A, np.sort(np.array(svals))[::-1]


def resolve_tol(case, designed):
    t = case['tol']
    if t['mode'] == 'value':
        return float(t['x'])
    # exactly a cumulative relative weight of the designed spectrum (smallest first), same formula as the code
    s = np.asarray(designed, dtype=float)
    w = np.linalg.norm(s)
    if w == 0 or len(s) == 0:
        return 0.0
    c = np.cumsum(np.sort((s / w) ** 2))
    v = float(c[t['j'] % len(c)])
    return v if v < 1 - 1e-9 else 0.5


def judge_split(A, u, s, v, q, q0, q1, tol, rec, prefix=''):
    """Shared oracle for (u, s, v, q) against the matrix A."""
    m, n = A.shape
    k = len(s)
    require(u.shape == (m, k) and v.shape == (k, n) and len(q) == k, prefix + 'inconsistent output sizes',
            u=u.shape, v=v.shape, s=k, q=len(q))
    nrm = np.linalg.norm(A)
    sig = np.linalg.svd(A, compute_uv=False)
    tot = float(np.sum(sig ** 2))
    require(mat_mask_violation(u, q0, q) == 0, prefix + 'u not block sparse under (q0, q)')
    require(mat_mask_violation(v, q, q1) == 0, prefix + 'v not block sparse under (q, q1)')
    if nrm == 0:
        require(np.linalg.norm((u * s) @ v) == 0, prefix + 'zero matrix: product of factors is not zero')
        return
    if tol > 1 - 1e-9:
        rec.skip('tol within rounding of 1')
        return
    require(k >= 1, prefix + 'no singular value kept for a non-zero matrix with tol < 1', tol=tol)
    require(np.all(np.asarray(s) > 0), prefix + 'non-positive singular value returned', s=np.asarray(s).tolist())
    e_u = np.linalg.norm(u.conj().T @ u - np.identity(k))
    e_v = np.linalg.norm(v @ v.conj().T - np.identity(k))
    require(e_u <= TOL * max(1, k), prefix + 'u is not an isometry', err=e_u)
    require(e_v <= TOL * max(1, k), prefix + 'v is not an isometry', err=e_v)
    err2 = np.linalg.norm(A - (u * s) @ v) ** 2
    kept2 = float(np.sum(np.asarray(s) ** 2))
    ident = abs(err2 - (tot - kept2))
    require(ident <= TOL * tot, prefix + 'reconstruction error differs from the discarded weight',
            err2=err2, discarded=tot - kept2, tot=tot)
    disc = 1 - kept2 / tot
    require(disc <= tol + TOL, prefix + 'discarded relative weight exceeds the tolerance', discarded=disc, tol=tol)
    # the same clause without cancellation, for tolerances far below 1e-12: the discarded weight summed from the small singular values
    # themselves (accurate to rounding of the SVD, ~1e-32 in relative weight); only a gross excess (factor 10) is judged here, the
    # neighbourhood of the threshold is left to the clause above
    disc_tail = float(np.sum(sig[k:] ** 2)) / tot
    require(disc_tail <= 10 * tol + 1e-24, prefix + 'discarded relative weight exceeds a tiny tolerance by more than a factor of ten',
            discarded=disc_tail, tol=tol)
    # kept values are the k largest singular values of A
    ss = np.sort(np.asarray(s))[::-1]
    dev = np.max(np.abs(ss - sig[:k]))
    require(dev <= TOL * nrm, prefix + 'kept singular values are not the largest ones', dev=dev, kept=ss.tolist(), full=sig.tolist())
    # maximality: discarding the smallest kept one as well would exceed the tolerance
    require(disc + ss[-1] ** 2 / tot > tol - TOL, prefix + 'truncation is not maximal: one more value could be discarded',
            discarded=disc, next=ss[-1] ** 2 / tot, tol=tol)
    if tol == 0:
        require(np.sqrt(err2) <= TOL * nrm, prefix + 'zero tolerance does not reproduce the matrix', err=np.sqrt(err2))
    rec.metric(prefix + 'identity_err', ident / tot)
    rec.metric(prefix + 'iso_err', max(e_u, e_v))
    nd = int(np.sum(sig > 1e-14 * nrm)) - k
    return nd



def _charge_forms(q0, q1, seed):
    """The same charge vectors in another integer dtype if every value fits: uint8 / uint16 for non-negative charges, int16 otherwise."""
    k = seed % 4
    allq = np.concatenate([q0, q1])
    if k == 1 and allq.min() >= 0 and allq.max() < 120:
        return q0.astype(np.uint8), q1.astype(np.uint8)
    if k == 2 and allq.min() >= 0 and allq.max() < 30000:
        return q0.astype(np.uint16), q1.astype(np.uint16)
    if k == 3 and np.abs(allq).max() < 16000:
        return q0.astype(np.int16), q1.astype(np.int16)
    return q0, q1


def check_svd(case, rec):
    q0 = np.array(case['q0'], dtype=int)
    q1 = np.array(case['q1'], dtype=int)
    if case['style'] in SPECTRA:
        A, designed = designed_matrix(q0, q1, case['seed'], case['style'])
        rec.label('spectrum_' + case['style'])
    elif case['style'] == 'zero':
        A = np.zeros((len(q0), len(q1))); designed = np.zeros(0)
        rec.label('zero_matrix')
    else:
        A = block_matrix(q0, q1, case['seed'], case['style'])
        designed = np.linalg.svd(A, compute_uv=False)
        rec.label('random_entries')
    tol = resolve_tol(case, designed)
    rec.label('tol_' + ('zero' if tol == 0 else case['tol']['mode']))
    # the tolerance is a RELATIVE weight, so the split is scale free: the whole matrix times an exact power of two
    # (2^-70 ~ 1e-21: norm far below machine epsilon; 2^+60)
    asc = case.get('ascale', 0)
    if asc:
        A = A * (2.0 ** asc); designed = np.asarray(designed) * (2.0 ** asc)
        rec.label('input_scaled_2^%d' % asc)
    A0 = A.copy(); q0c = q0.copy(); q1c = q1.copy()
    # charges also as unsigned / narrow integer arrays when their values allow it (occupation numbers are naturally unsigned)
    qa, qb = _charge_forms(q0, q1, case['seed'])
    if qa.dtype != q0.dtype:
        rec.label('charge_dtype_' + str(qa.dtype))
    u, s, v, q = ptn.split_matrix_svd(A, qa, qb, tol)
    # judged after the library has been used again: results must not live in storage that later calls reuse
    ptn.split_matrix_svd(A[::-1, ::-1].copy(), q0[::-1].copy(), q1[::-1].copy(), 0.0)
    ptn.split_matrix_svd(block_matrix(np.array([0, 1]), np.array([1, 0, 1]), 7, 'real'), np.array([0, 1]), np.array([1, 0, 1]), 0.0)
    require(A.tobytes() == A0.tobytes() and A.dtype == A0.dtype and A.shape == A0.shape, 'split_matrix_svd modified its input matrix')
    require(np.array_equal(q0, q0c) and np.array_equal(q1, q1c), 'split_matrix_svd modified its charge arguments')
    nd = judge_split(A, u, s, v, np.asarray(q), q0, q1, tol, rec)
    shared = np.intersect1d(q0, q1)
    if len(shared) == 0:
        rec.label('dummy_branch')
    if not np.all(np.diff(q0) >= 0):
        rec.label('unsorted0')
    if not np.all(np.diff(q1) >= 0):
        rec.label('unsorted1')
    if nd is not None and nd > 0:
        rec.label('truncated')
    rec.nontrivial = bool(nd is not None and nd > 0 and len(s) >= 1 and len(shared) >= 2)
    # retained_bond_indices on its own: input unchanged, indices sorted and in range
    sv = np.array(designed, dtype=float)
    if len(sv):
        sv0 = sv.copy()
        idx = ptn.retained_bond_indices(sv, tol)
        require(sv.tobytes() == sv0.tobytes(), 'retained_bond_indices modified its input')
        require(np.all(np.diff(idx) > 0) and (len(idx) == 0 or (idx[0] >= 0 and idx[-1] < len(sv))), 'retained indices not increasing / out of range')


@st.composite
def tol_strategy(draw):
    mode = draw(st.sampled_from(['zero', 'value', 'value', 'cum', 'cum', 'small', 'tiny']))
    if mode == 'tiny':
        # positive tolerances below machine epsilon (1 - tol == 1 in floating point)
        return {'mode': 'value', 'x': draw(st.sampled_from([1e-16, 3e-17, 1e-20, 3e-21, 1e-100, 5e-324]))}
    if mode == 'zero':
        return {'mode': 'value', 'x': 0.0}
    if mode == 'value':
        return {'mode': 'value', 'x': draw(st.floats(0, 0.999))}
    if mode == 'small':
        return {'mode': 'value', 'x': 10.0 ** (-draw(st.integers(2, 14)))}
    return {'mode': 'cum', 'j': draw(st.integers(0, 30))}


@st.composite
def gen_matrix_case(draw):
    q0, q1 = draw(charge_vectors())
    if draw(st.sampled_from([False, False, False, True])):
        # strongly elongated charge sectors (aspect ratio >= 8 with two or three states on the short side), as they occur at the
        # boundary of a chain; either orientation
        c = draw(st.integers(-2, 2))
        short = [c] * draw(st.sampled_from([2, 3])) + [c + 1] * draw(st.sampled_from([0, 1]))
        long_ = [c] * draw(st.integers(24, 30)) + [c + 1] * draw(st.sampled_from([0, 9]))
        if draw(st.booleans()):
            long_ = long_[::-1]
        q0, q1 = (short, long_) if draw(st.booleans()) else (long_, short)
    style = draw(st.sampled_from(SPECTRA + SPECTRA + ['complex', 'real', 'dupcols', 'zeroblock', 'zero']))
    return {'q0': q0, 'q1': q1, 'seed': draw(st.integers(0, 2**31 - 1)), 'style': style, 'tol': draw(tol_strategy()),
            'ascale': draw(st.sampled_from([0, 0, 0, -70, -120, 60]))}


# ---- two-site tensor split ------------------------------------------------------------


def twosite_tensor(case):
    rng = np.random.default_rng(case['seed'])
    qd0 = np.array(case['qd0']); qd1 = np.array(case['qd1'])
    ql = np.array(case['ql']); qr = np.array(case['qr'])
    d0, d1 = len(qd0), len(qd1)
    shape = (d0, d1, len(ql), len(qr))
    if case['style'] == 'real':
        A = rng.normal(size=shape)
    else:
        A = rng.normal(size=shape) + 1j * rng.normal(size=shape)
    # optional decaying weights to make truncation interesting
    if case.get('decay'):
        A = A * (2.0 ** -rng.integers(0, 12, size=shape))
    mask = (qd0[:, None, None, None] + qd1[None, :, None, None] + ql[None, None, :, None] - qr[None, None, None, :]) == 0
    A = np.where(mask, A, 0)
    return A.reshape(d0 * d1, len(ql), len(qr))


def check_split_tensor(case, rec):
    qd0 = np.array(case['qd0']); qd1 = np.array(case['qd1'])
    ql = np.array(case['ql']); qr = np.array(case['qr'])
    d0, d1 = len(qd0), len(qd1)
    A = twosite_tensor(case)
    if case.get('ascale'):
        A = A * (2.0 ** case['ascale'])
        rec.label('input_scaled_2^%d' % case['ascale'])
    distr = case['distr']
    tol = float(case['tolx'])
    A0 = A.copy()
    if tol == 0 and case['seed'] % 2:
        B0, B1, qb = ptn.split_mps_tensor(A, qd0, qd1, [ql, qr], distr)    # tol = 0 is the documented default
        rec.label('default_tol_argument')
    else:
        B0, B1, qb = ptn.split_mps_tensor(A, qd0, qd1, [ql, qr], distr, tol)
    require(A.tobytes() == A0.tobytes() and A.shape == A0.shape, 'split_mps_tensor modified its input tensor')
    qb = np.asarray(qb)
    k = len(qb)
    require(B0.shape == (d0, len(ql), k) and B1.shape == (d1, k, len(qr)), 'wrong output shapes', B0=B0.shape, B1=B1.shape, k=k)
    require(mps_mask_violation(B0, qd0, ql, qb) == 0, 'first tensor not block sparse under (qd0, qD0, qbond)')
    require(mps_mask_violation(B1, qd1, qb, qr) == 0, 'second tensor not block sparse under (qd1, qbond, qD2)')
    # independent matrix view: rows (s0, l), columns (s1, r)
    M = A.reshape(d0, d1, len(ql), len(qr)).transpose(0, 2, 1, 3).reshape(d0 * len(ql), d1 * len(qr))
    nrm = np.linalg.norm(M)
    M0 = B0.reshape(d0 * len(ql), k)
    M1 = B1.transpose(1, 0, 2).reshape(k, d1 * len(qr))
    rec.label('distr_' + distr)
    if nrm == 0:
        require(np.linalg.norm(M0 @ M1) == 0, 'zero tensor: merged result is not zero')
        rec.label('zero_tensor')
        return
    # recover (u, s, v) from the distribution and reuse the matrix oracle
    if distr == 'left':
        s = np.linalg.norm(M0, axis=0); u = M0 / s; v = M1
    elif distr == 'right':
        s = np.linalg.norm(M1, axis=1); u = M0; v = M1 / s[:, None]
    else:
        s0 = np.linalg.norm(M0, axis=0); s1 = np.linalg.norm(M1, axis=1)
        # both factors carry sqrt(sigma): their column / row norms have the dimension of sqrt(||A||)
        require(np.max(np.abs(s0 - s1)) <= 10 * TOL * np.sqrt(nrm), "'sqrt' distribution is not balanced", s0=s0.tolist(), s1=s1.tolist())
        s = s0 * s1; u = M0 / s0; v = M1 / s1[:, None]
    q0 = (qd0[:, None] + ql[None, :]).reshape(-1)
    q1 = (-qd1[:, None] + qr[None, :]).reshape(-1)
    nd = judge_split(M, u, s, v, qb, q0, q1, tol, rec, prefix='tensor:')
    # merging undoes the split up to the truncation
    merged = np.einsum('slk,tkr->stlr', B0, B1).reshape(A.shape)
    sig = np.linalg.svd(M, compute_uv=False)
    want2 = float(np.sum(sig ** 2) - np.sum(np.asarray(s) ** 2))
    got2 = np.linalg.norm(merged - A) ** 2
    require(abs(got2 - want2) <= TOL * nrm ** 2, 'merged split differs from the tensor by more than the discarded weight', got2=got2, want2=want2)
    if tol == 0:
        require(np.sqrt(got2) <= TOL * nrm, 'merging does not undo a zero-tolerance split', err=np.sqrt(got2))
        rec.label('tol_zero')
    if nd and nd > 0:
        rec.label('truncated')
    rec.nontrivial = bool((nd or 0) > 0 or (tol == 0 and k >= 2))


@st.composite
def gen_tensor_case(draw):
    kind = draw(st.sampled_from(['zero', 'small', 'small', 'pairs']))
    d0 = draw(st.integers(1, 3)); d1 = draw(st.integers(1, 3))

    def phys(d):
        if kind == 'zero':
            return [0] * d
        if kind == 'small':
            return draw(st.lists(st.integers(-1, 2), min_size=d, max_size=d))
        return [(draw(st.integers(0, 2)) << 16) + draw(st.integers(-1, 1)) for _ in range(d)]
    qd0 = phys(d0)
    same = draw(st.booleans())
    qd1 = list(qd0) if same else phys(d1)
    Dl = draw(st.integers(1, 5)); Dr = draw(st.integers(1, 5))
    ql = [0] * Dl if kind == 'zero' else draw(st.lists(st.integers(-1, 1), min_size=Dl, max_size=Dl))
    # right charges reachable from the left ones (construction, not rejection)
    reach = sorted({a + b + c for a in ql for b in qd0 for c in qd1})
    qr = draw(st.lists(st.sampled_from(reach), min_size=Dr, max_size=Dr))
    tolx = draw(st.sampled_from([0.0, 0.0, 1e-12, 1e-6, 1e-3, 0.05, 0.3, 0.9]))
    return {'qd0': qd0, 'qd1': qd1, 'ql': ql, 'qr': qr, 'seed': draw(st.integers(0, 2**31 - 1)),
            'style': draw(st.sampled_from(['complex', 'real'])), 'decay': draw(st.booleans()),
            'distr': draw(st.sampled_from(['left', 'right', 'sqrt'])), 'tolx': tolx, 'ascale': draw(st.sampled_from([0, 0, 0, -70, 60]))}


PARTS = [
    Part('matrix_split', check_svd, strategy=lambda tier: gen_matrix_case(),
         n={'quick': 600, 'thorough': 10000}, workers={'quick': 4, 'thorough': 16},
         doc='split_matrix_svd on random and designed-spectrum block matrices, incl. boundary tolerances and the zero matrix'),
    Part('tensor_split', check_split_tensor, strategy=lambda tier: gen_tensor_case(),
         n={'quick': 300, 'thorough': 5000}, workers={'quick': 4, 'thorough': 16},
         doc='split_mps_tensor with the three singular-value distributions and tol >= 0'),
    Part('fuzz_matrix_split', None, fuzz_of='matrix_split', runs={'quick': 0, 'thorough': 30000}, workers={'quick': 0, 'thorough': 4},
         doc='atheris campaign over block matrices, spectra and tolerances'),
]
