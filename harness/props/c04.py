"""C04  Inner products, expectation values and environment blocks match dense results."""
import numpy as np
from hypothesis import strategies as st

import pytenet as ptn
from pytenet.operation import contraction_operator_step_left, contraction_step_left, contraction_step_right
from core import Part, require
from gen_qn import (matrix_element_triple, sector_family, build_mps, build_mpo, mpo_tensors, mps_tensors,
                    hermitian_mpo_from, FLOAT_STYLES)
from oracle_dense import mps_to_vec, mpo_to_mat

ID = 'C04'
RULE = ('cases = (a) quadruples (chi, op, psi, rho) constructed along a shared path of physical index pairs so that <chi|op|psi> and tr(op rho) '
        'are generically non-zero, independent bond profiles, arbitrary operator shift, L 1..5, d 1..3; (b) arbitrary (non-canonical) MPS + MPO '
        '(Hermitian M + M^dagger built in the harness, or non-Hermitian), every site position, one-site / two-site / zero-site local operators '
        'probed with random tensors X, Y; (c) pairs of MPS from one sector family (optionally different leading charges): vdot, its conjugate symmetry, and the public left / right transfer steps combined at every cut. Non-trivial: |value| > 1e-8 x product of tensor norms (a) / a bond >= 2 and L >= 2 (b).')
ASSUME = ['dense reach d^L <= 1024', 'relative tolerance 1e-11 with respect to the product of site-tensor norms']

TOL = 1e-11


def cvec(A):
    return np.asarray(mps_to_vec([np.asarray(a, dtype=complex) for a in A]))


def cmat(A):
    return np.asarray(mpo_to_mat([np.asarray(a, dtype=complex) for a in A]))


def tmag(A):
    m = 1.0
    for a in A:
        m *= float(np.linalg.norm(a))
    return m


def check_scalars(case, rec):
    sh = case.get('shifts', [0, 0, 0])
    chi = build_mps(shifted(case['chi'], sh[0])); psi = build_mps(case['psi'])
    op = build_mpo(shifted(case['op'], sh[1])); rho = build_mpo(shifted(case['rho'], sh[2]))
    if any(sh):
        rec.label('shifted_boundary_charges')
    if case.get('tiny'):
        # every scalar is homogeneous in its operands: states and operators times exact powers of two (values down to 1e-40 and
        # below, where an ABSOLUTE threshold on the result would bite); all tolerances are relative to the product of tensor norms
        e = case['tiny']
        psi.A[0] = psi.A[0] * 2.0 ** e; chi.A[-1] = chi.A[-1] * 2.0 ** (e // 2)
        rho.A[0] = rho.A[0] * 2.0 ** e; op.A[-1] = op.A[-1] * 2.0 ** (e // 3)
        rec.label('operands_scaled_2^%d' % e)
    vchi, vpsi = cvec(chi.A), cvec(psi.A)
    Mop, Mrho = cmat(op.A), cmat(rho.A)
    mchi, mpsi, mop, mrho = tmag(chi.A), tmag(psi.A), tmag(op.A), tmag(rho.A)
    vals = {}

    def cmp(name, got, ref, mag):
        err = abs(complex(got) - complex(ref))
        require(err <= TOL * max(mag, 1e-300), name + ' differs from the dense value', got=complex(got), ref=complex(ref), err=err, magnitude=mag)
        vals[name] = abs(complex(ref)) > 1e-8 * mag
        rec.metric(name + '_err', err / max(mag, 1e-300))

    # inner products of states living in the same sector need equal boundary charges only for a non-zero value;
    # vdot itself is a plain contraction, so (chi, O psi) is compared through apply_operator-free dense algebra
    cmp('vdot_self', ptn.vdot(psi, psi), np.vdot(vpsi, vpsi), mpsi * mpsi)
    require(abs(ptn.norm(psi) - np.linalg.norm(vpsi)) <= TOL * max(mpsi, 1e-300), 'norm differs from the dense norm',
            got=float(ptn.norm(psi)), ref=float(np.linalg.norm(vpsi)))
    cmp('operator_inner_product', ptn.operator_inner_product(chi, op, psi), np.vdot(vchi, Mop @ vpsi), mchi * mop * mpsi)
    cmp('operator_density_average', ptn.operator_density_average(rho, op), np.trace(Mop @ Mrho), mop * mrho)
    cmp('operator_average', ptn.operator_average(psi, op), np.vdot(vpsi, Mop @ vpsi), mpsi * mop * mpsi)
    cmp('operator_average_chi', ptn.operator_average(chi, op), np.vdot(vchi, Mop @ vchi), mchi * mop * mchi)
    L = len(psi.A)
    rec.label('L=%d' % L)
    for k, v in vals.items():
        if v:
            rec.label('nonzero_' + k)
    bonds = [len(q) for k in ('chi', 'psi', 'op', 'rho') for q in case[k]['qD']]
    rec.nontrivial = bool(vals['operator_inner_product'] and max(bonds) >= 2)


def shifted(desc, c):
    """Same state with every bond quantum number shifted by c (the sparsity rule only involves differences)."""
    d = dict(desc)
    d['qD'] = [[q + c for q in qs] for qs in desc['qD']]
    return d


def check_vdot(case, rec):
    fam = case['fam']
    a = build_mps(shifted(fam['mps'][0], case.get('shift', 0))); b = build_mps(fam['mps'][1])
    if case.get('single'):
        # tensors stored in single precision (one or both operands): the contraction then runs in single precision and is judged at
        # that accuracy; a dropped imaginary part or conjugation is O(1)
        for psi in ((a, b) if case['single'] == 'both' else (a,)):
            psi.A = [np.asarray(x, dtype=complex).astype(np.complex64) for x in psi.A]
        va, vb = cvec(a.A), cvec(b.A)
        mag = tmag(a.A) * tmag(b.A)
        got = ptn.vdot(a, b); ref = np.vdot(va, vb)
        require(abs(complex(got) - complex(ref)) <= 2e-4 * max(mag, 1e-300), 'vdot of single-precision tensors differs from conj(chi).psi',
                got=complex(got), ref=complex(ref), magnitude=mag)
        nb = float(np.linalg.norm(vb))
        require(abs(float(ptn.norm(b)) - nb) <= 2e-4 * max(tmag(b.A), 1e-300), 'norm of a single-precision state differs from the dense norm')
        rec.label('storage_complex64_' + case['single'], 'L=%d' % len(a.A))
        rec.nontrivial = bool(abs(ref) > 1e-3 * mag)
        return
    if case.get('shift', 0):
        rec.label('different_leading_charges')
    va, vb = cvec(a.A), cvec(b.A)
    mag = tmag(a.A) * tmag(b.A)
    tmag_b = tmag(b.A)
    got = ptn.vdot(a, b)
    ref = np.vdot(va, vb)      # first argument conjugated
    err = abs(complex(got) - complex(ref))
    require(err <= TOL * max(mag, 1e-300), 'vdot differs from conj(chi).psi', got=complex(got), ref=complex(ref), err=err, magnitude=mag)
    got2 = ptn.vdot(b, a)
    require(abs(complex(got2) - np.conj(complex(ref))) <= TOL * max(mag, 1e-300), 'vdot(psi, chi) is not the conjugate of vdot(chi, psi)')
    rec.metric('vdot_err', err / max(mag, 1e-300))
    # the left and right transfer steps (public helpers; vdot itself sweeps from the right only): at every cut the left block
    # contracted with the right block is the same inner product
    if a.A[0].shape[1] == b.A[0].shape[1] and a.A[-1].shape[2] == b.A[-1].shape[2]:
        n = len(a.A)
        Lb = [np.identity(a.A[0].shape[1], dtype=complex)]
        for i in range(n):
            Lb.append(contraction_step_left(b.A[i], a.A[i], Lb[-1]))
        Rb = [np.identity(a.A[-1].shape[2], dtype=complex)]
        for i in reversed(range(n)):
            Rb.insert(0, contraction_step_right(b.A[i], a.A[i], Rb[0]))
        for i in range(n + 1):
            require(Lb[i].shape == (b.A[i].shape[1] if i < n else b.A[-1].shape[2], a.A[i].shape[1] if i < n else a.A[-1].shape[2])
                    and Rb[i].shape == Lb[i].shape, 'transfer block has the wrong shape (ket bond x bra bond)', cut=i, left=Lb[i].shape, right=Rb[i].shape)
            val = complex(np.sum(Lb[i] * Rb[i]))
            require(abs(val - complex(ref)) <= TOL * max(mag, 1e-300), 'left block . right block differs from the inner product', cut=i,
                    got=val, ref=complex(ref), magnitude=mag)
        rec.label('transfer_blocks')
    # the same states in another bond gauge: diag(2^k) on an interior bond of each (powers of two: every product of entries is
    # unchanged bit for bit, but the bond channels now differ in scale by up to 2^120); the inner product and the norm do not change
    if len(a.A) >= 2:
        rng = np.random.default_rng(fam['mps'][0]['seed'] + 3)
        for psi in (a, b):
            k = 1 + int(rng.integers(0, len(psi.A) - 1))
            x = 2.0 ** rng.integers(-60, 61, size=psi.A[k].shape[1])
            psi.A[k - 1] = psi.A[k - 1] * x[None, None, :]
            psi.A[k] = psi.A[k] / x[None, :, None]
        got3 = ptn.vdot(a, b)
        require(abs(complex(got3) - complex(ref)) <= TOL * max(mag, 1e-300), 'vdot changes under a power-of-two bond gauge of its arguments',
                got=complex(got3), ref=complex(ref), magnitude=mag)
        nb = float(np.linalg.norm(vb))
        require(abs(float(ptn.norm(b)) - nb) <= TOL * max(tmag_b, 1e-300), 'norm changes under a power-of-two bond gauge', got=float(ptn.norm(b)), ref=nb)
        rec.label('bond_gauge_rescaled')
    rec.label('L=%d' % len(a.A))
    if abs(ref.imag) > 1e-8 * mag:
        rec.label('complex_value')
    bonds = [len(q) for d in fam['mps'] for q in d['qD']]
    rec.nontrivial = bool(abs(ref) > 1e-8 * mag and max(bonds) >= 2)


@st.composite
def gen_scalars(draw, tier):
    c = draw(matrix_element_triple(Lmax=5 if tier == 'quick' else 6, dense_cap=1024))
    c['shifts'] = [draw(st.sampled_from([0, 0, 2, -1])) for _ in range(3)]
    c['tiny'] = draw(st.sampled_from([0, 0, 0, -40, -70, 30]))
    return c


@st.composite
def gen_vdot(draw, tier):
    return {'fam': draw(sector_family(n_mps=2, n_mpo=0, Lmax=5 if tier == 'quick' else 6, dmax=4, Dmax=5, dense_cap=1024)),
            'shift': draw(st.sampled_from([0, 0, 1, -3, 65536])), 'single': draw(st.sampled_from([None, None, None, None, 'one', 'both']))}


# ---- local operators --------------------------------------------------------------------


def embed(A, i, X, span=1):
    """Dense state with tensors i..i+span-1 replaced by the single tensor X (physical dim d^span)."""
    return cvec(list(A[:i]) + [X] + list(A[i + span:]))


def check_local(case, rec):
    psi = build_mps(case['psi'])
    if case['hermitian']:
        op = hermitian_mpo_from(case['op'])
    else:
        op = build_mpo(case['op'])
    A = [np.asarray(a, dtype=complex) for a in psi.A]
    psi.A = [a.copy() for a in A]
    W = [np.asarray(w, dtype=complex) for w in op.A]
    L = len(A)
    M = cmat(W)
    rng = np.random.default_rng(case['seed'])
    A0 = [a.copy() for a in psi.A]; W0 = [w.copy() for w in op.A]
    BR = ptn.compute_right_operator_blocks(psi, op)
    require(len(BR) == L, 'wrong number of right blocks')
    BL = [None] * L
    BL[0] = np.array([[[1]]], dtype=complex)
    for i in range(L - 1):
        BL[i + 1] = contraction_operator_step_left(psi.A[i], psi.A[i], op.A[i], BL[i])
    require(all(a.tobytes() == b.tobytes() for a, b in zip(psi.A, A0)) and all(a.tobytes() == b.tobytes() for a, b in zip(op.A, W0)),
            'environment construction modified the state or the operator')
    herm_worst = 0.0

    def crandn(shape):
        return rng.normal(size=shape) + 1j * rng.normal(size=shape)

    def judge(name, Hfun, shape, emb, site):
        X = crandn(shape); Y = crandn(shape)
        HX = Hfun(X)
        require(HX.shape == tuple(shape), name + ': output shape differs from the input shape', got=HX.shape, want=shape)
        got = np.vdot(Y, HX)
        ref = np.vdot(emb(Y), M @ emb(X))
        # natural scale: norms of all fixed tensors squared, the operator, and the probes
        fixed = float(np.prod([np.linalg.norm(A[j]) ** 2 for j in range(L) if j not in site])) * tmag(W)
        scale = fixed * np.linalg.norm(X) * np.linalg.norm(Y)
        err = abs(got - ref)
        require(err <= TOL * max(scale, 1e-300), name + ': matrix element of the effective operator differs from the dense projection',
                site=site, got=complex(got), ref=complex(ref), err=err, scale=scale)
        rec.metric(name + '_err', err / max(scale, 1e-300))
        if case['hermitian']:
            # Hermiticity of the effective operator, assembled column by column
            n = int(np.prod(shape))
            if n <= 64:
                Heff = np.zeros((n, n), dtype=complex)
                for k in range(n):
                    e = np.zeros(n, dtype=complex); e[k] = 1
                    Heff[:, k] = Hfun(e.reshape(shape)).reshape(-1)
                eh = np.linalg.norm(Heff - Heff.conj().T)
                require(eh <= TOL * max(fixed, 1e-300) * n, name + ': effective operator of a Hermitian MPO is not Hermitian', site=site, err=eh, scale=fixed)
        return abs(ref) > 1e-8 * scale

    nz = False
    for i in range(L):
        pos = 'first' if i == 0 else ('last' if i == L - 1 else 'interior')
        nz |= judge('one_site', lambda X, i=i: ptn.apply_local_hamiltonian(BL[i], BR[i], op.A[i], X), A[i].shape,
                    lambda X, i=i: embed(A, i, X), [i])
        rec.label('one_site_' + pos)
    for i in range(L - 1):
        Wm = ptn.merge_mpo_tensor_pair(op.A[i], op.A[i + 1])
        d = A[i].shape[0]
        shape = (d * d, A[i].shape[1], A[i + 1].shape[2])
        # merged MPO tensor agrees with an independent contraction
        ref_m = np.einsum('abij,cdjk->acbdik', W[i], W[i + 1]).reshape(d * d, d * d, W[i].shape[2], W[i + 1].shape[3])
        require(np.linalg.norm(Wm - ref_m) <= 1e-13 * max(np.linalg.norm(ref_m), 1), 'merge_mpo_tensor_pair differs from an independent contraction')
        nz |= judge('two_site', lambda X, i=i, Wm=Wm: ptn.apply_local_hamiltonian(BL[i], BR[i + 1], Wm, X), shape,
                    lambda X, i=i: embed(A, i, X, span=2), [i, i + 1])
        rec.label('two_site')
    for i in range(L - 1):
        Dm = A[i].shape[2]

        def emb0(C, i=i):
            B = list(A)
            B[i] = np.tensordot(A[i], C, axes=(2, 0))
            return cvec(B)
        nz |= judge('zero_site', lambda C, i=i: ptn.apply_local_bond_contraction(BL[i + 1], BR[i], C), (Dm, Dm), emb0, [])
        rec.label('zero_site')
    rec.label('L=%d' % L, 'hermitian' if case['hermitian'] else 'non_hermitian')
    bonds = [len(q) for q in case['psi']['qD']]
    rec.nontrivial = bool(nz and L >= 2 and max(bonds) >= 2)


@st.composite
def gen_local(draw, tier):
    herm = draw(st.booleans())
    fam = draw(sector_family(n_mps=1, n_mpo=1, Lmax=4 if tier == 'quick' else 5, dmin=1, dmax=3, Dmax=3, dense_cap=256,
                             zero_shift_ops=True, styles=['complex', 'complex', 'real', 'zeroblock']))
    return {'psi': fam['mps'][0], 'op': fam['mpo'][0], 'hermitian': herm, 'seed': draw(st.integers(0, 2**31 - 1))}


PARTS = [
    Part('scalars', check_scalars, strategy=lambda tier: gen_scalars(tier),
         n={'quick': 250, 'thorough': 4000}, workers={'quick': 4, 'thorough': 16}),
    Part('vdot', check_vdot, strategy=gen_vdot, n={'quick': 200, 'thorough': 3000}, workers={'quick': 2, 'thorough': 16}),
    Part('local_operators', check_local, strategy=gen_local, n={'quick': 120, 'thorough': 2500}, workers={'quick': 4, 'thorough': 16}),
]
