"""C08  Real-time TDVP conserves norm, energy and quantum numbers."""
import numpy as np
from hypothesis import strategies as st

import pytenet as ptn
from core import Part, require, known_listed, Violation, _classify
from lanczos_monitor import LanczosMonitor
from gen_dyn import ham_and_state, build_ham, dense_ham, dense_state, sector_mask, gauge_edit, quench_ham
from gen_qn import build_mps
from oracle_dense import mps_mask_violation

ID = 'C08'
KEY_F5 = 'tdvp-local-exponential-past-undetected-lanczos-breakdown'

RULE = ('cases = (Hermitian MPO: ising / xxz spin-1/2 / xxz spin-1 / bose-hubbard d 2..4 / fermi-hubbard with generic parameters or random M + M^dagger with charges; '
        'L 1..5 (two-site: >= 2); random state in a sector of the model with arbitrary bond profile; integrator single-site | two-site (tol_split = 0); dt = i tau with tau in +-[1e-3, 1]; '
        '1..4 steps; 1..8 local Krylov iterations; optionally a second call on the evolved state). Non-trivial: L >= 2, a bond >= 2, ||H|| |tau| steps > 1e-2 and energy variance of the start state > 1e-6.')
ASSUME = ['known finding F5 at its TDVP call site (witness uses the default numiter_lanczos = 25 on two-site problems of dimension 16): a failure is attributed to it - excluded and counted - only when a local Lanczos iteration of the same case returned more vectors than its Krylov space has dimensions (run-time monitor as in C09 / C10); runs without that signature are judged in full',
          'energy and norm are exact invariants of every local Krylov sub-step (unitary in its Krylov space, Rayleigh quotient conserved); judged to 1e-10 max(1, ||H||)',
          'the exactly-zero state is outside the domain', 'dense reach d^L <= 256']


def run_integrator(kind, H, psi, dt, steps, iters):
    if kind == 'single':
        if iters == 25:
            return ptn.integrate_local_singlesite(H, psi, dt, steps)      # documented default numiter_lanczos = 25
        return ptn.integrate_local_singlesite(H, psi, dt, steps, numiter_lanczos=iters)
    if iters == 25:
        return ptn.integrate_local_twosite(H, psi, dt, steps)             # documented defaults numiter_lanczos = 25, tol_split = 0
    if iters % 2:
        return ptn.integrate_local_twosite(H, psi, dt, steps, numiter_lanczos=iters)
    return ptn.integrate_local_twosite(H, psi, dt, steps, numiter_lanczos=iters, tol_split=0)


def check_tdvp(case, rec):
    """Known finding F5 at its TDVP call site: every clause is judged on every run; a failure (clause or exception) is attributed to the
    finding - excluded and counted - only if, up to that point of the same case, a local Lanczos iteration returned more vectors than its
    Krylov space has dimensions (run-time monitor)."""
    with LanczosMonitor() as mon:
        try:
            _check_tdvp(case, rec)
        except Exception as e:
            if mon.past_breakdown and known_listed(ID, KEY_F5) and (isinstance(e, Violation) or _classify(e, e.__traceback__) == 'violation'):
                rec.label('lanczos_past_breakdown', 'failure_attributed_to_known_finding')
                rec.excluded_known += 1
                rec.nontrivial = False
                return
            raise
        if mon.past_breakdown:
            rec.label('lanczos_past_breakdown')


def _check_tdvp(case, rec):
    H = build_ham(case['ham'])
    psi = build_mps(case['psi'])
    L = len(psi.A); d = len(psi.qd)
    kind = case['integrator']
    if kind == 'two' and L < 2:
        rec.skip('two-site integrator needs L >= 2')
        return
    v0 = dense_state(psi)
    n0 = np.linalg.norm(v0)
    if n0 == 0:
        rec.skip('zero state: outside the domain')
        return
    Hd = dense_ham(H)
    nH = max(1.0, np.linalg.norm(Hd, 2))
    require(np.linalg.norm(Hd - Hd.conj().T) <= 1e-12 * nH, 'generated Hamiltonian is not Hermitian (generator post-condition)')
    vn = v0 / n0
    E0 = float(np.vdot(vn, Hd @ vn).real)
    var0 = float(np.vdot(Hd @ vn, Hd @ vn).real - E0 ** 2)
    tau = case['tau']; steps = case['steps']; iters = case['iters']
    dt = 1j * tau
    HA0 = [a.copy() for a in H.A]; HqD0 = [np.array(q).copy() for q in H.qD]
    D_in = psi.bond_dims
    q_first = np.array(psi.qD[0]).copy(); q_last = np.array(psi.qD[-1]).copy()
    total = int(q_last[0]) - int(q_first[0])

    href = {'Hd': Hd, 'nH': nH, 'HA0': HA0}

    def one_call(label, Ebefore, D_before, nrm_expected):
        Hd = href['Hd']; nH = href['nH']; HA0 = href['HA0']
        ret = run_integrator(kind, H, psi, dt, steps, iters)
        require(abs(float(np.real(ret)) - nrm_expected) <= 1e-10 * max(1.0, nrm_expected), label + ': return value is not the norm of the input state',
                got=float(np.real(ret)), want=nrm_expected)
        v1 = dense_state(psi)
        require(np.all(np.isfinite(v1)), label + ': non-finite state')
        e_n = abs(np.linalg.norm(v1) - 1)
        require(e_n <= 1e-10, label + ': norm of the evolved state is not one', err=e_n)
        E1 = float(np.vdot(v1, Hd @ v1).real)
        require(abs(E1 - Ebefore) <= 1e-10 * nH, label + ': energy expectation value not conserved', before=Ebefore, after=E1, normH=nH)
        rec.metric('energy_drift', abs(E1 - Ebefore) / nH); rec.metric('norm_err', e_n)
        require(all(a.tobytes() == b.tobytes() for a, b in zip(H.A, HA0)) and all(np.array_equal(a, b) for a, b in zip(H.qD, HqD0)),
                label + ': the Hamiltonian was modified')
        require(np.array_equal(psi.qD[0], q_first) and np.array_equal(psi.qD[-1], q_last), label + ': total quantum numbers of the state changed')
        out = np.abs(v1[~sector_mask(psi.qd, L, total)])
        require(out.size == 0 or out.max() <= 1e-12, label + ': evolved state left its quantum number sector', leak=float(out.max()) if out.size else 0)
        for i, a in enumerate(psi.A):
            require(len(psi.qD[i]) == a.shape[1] and len(psi.qD[i + 1]) == a.shape[2], label + ': charge list length differs from bond dimension', site=i)
            require(mps_mask_violation(a, psi.qd, psi.qD[i], psi.qD[i + 1]) == 0, label + ': tensor not block sparse after the integration', site=i)
        if kind == 'single':
            D1 = psi.bond_dims
            require(all(a <= b for a, b in zip(D1, D_before)), label + ': single-site TDVP increased a bond dimension', before=D_before, after=D1)
        return v1, E1

    v1, E1 = one_call('first call', E0, D_in, n0)
    # metamorphic: the evolved state depends on the input only through the normalised input
    psi_s = build_mps(dict(case['psi'], scale=case['scale'] * (case['psi'].get('scale') or 1.0)))
    ns = np.linalg.norm(dense_state(psi_s))
    ret_s = run_integrator(kind, H, psi_s, dt, steps, iters)
    require(abs(float(np.real(ret_s)) - ns) <= 1e-10 * max(1.0, ns), 'scaled input: return value is not the norm of the input', got=float(np.real(ret_s)), want=float(ns))
    vs = dense_state(psi_s)
    sgn = -1.0 if (case['scale'] < 0 and L % 2 == 1) else 1.0   # every site tensor is scaled: overall factor scale^L
    require(np.linalg.norm(vs - sgn * v1) <= 1e-10, 'evolved state depends on the norm of the input (integrator does not evolve the normalised input)',
            diff=float(np.linalg.norm(vs - sgn * v1)))
    if case['second_call']:
        expect = 1.0
        if case.get('edit_between') == 'gauge':
            # same state in a different gauge: the second call must canonicalise it itself
            if gauge_edit(psi, case['psi']['seed']):
                rec.label('gauge_change_between_calls')
        elif case.get('edit_between'):
            # user-style edit between the calls: the second call must see the current tensors (norm 2)
            k = case['psi']['seed'] % L
            if case['psi']['seed'] % 2 and np.iscomplexobj(psi.A[k]):
                psi.A[k] *= 2.0          # in place: the array object (and its id) stays the same
            else:
                psi.A[k] = 2.0 * psi.A[k]
            expect = 2.0
            rec.label('edit_between_calls')
        if case.get('edit_H'):
            # the Hamiltonian OBJECT is changed between the calls (parameter quench: tensors of another Hamiltonian of the same family
            # assigned to it): the second call must evolve with the operator the object denotes now
            if quench_ham(H, case['ham']):
                Hq = dense_ham(H)
                href['Hd'] = Hq; href['nH'] = max(1.0, np.linalg.norm(Hq, 2)); href['HA0'] = [a.copy() for a in H.A]
                E1 = float(np.vdot(v1, Hq @ v1).real)
                rec.label('hamiltonian_changed_between_calls')
        one_call('second call', E1, psi.bond_dims, expect)
        rec.label('second_call')
    rec.label('model_' + (case['ham'].get('model') or 'random'), 'integrator_' + kind, 'iters=%d' % iters, 'L=%d' % L)
    rec.nontrivial = bool(L >= 2 and max(D_in) >= 2 and nH * abs(tau) * steps > 1e-2 and var0 > 1e-6)


@st.composite
def gen_tdvp(draw, tier):
    c = draw(ham_and_state(Lmin=1, Lmax=5, dense_cap=128 if tier == 'quick' else 256, Dmax=4))
    c['integrator'] = draw(st.sampled_from(['single', 'two']))
    mag = draw(st.sampled_from([1e-3, 0.01, 0.05, 0.1, 0.3, 1.0]))
    c['tau'] = mag * draw(st.sampled_from([1, -1]))
    c['steps'] = draw(st.sampled_from([1, 2, 3, 4]))
    c['iters'] = draw(st.sampled_from([3, 1, 2, 4, 5, 6, 8, 25]))
    c['scale'] = draw(st.sampled_from([4.0, 0.25, -2.0, 1024.0]))   # powers of two: the scaling is exact in floating point
    c['second_call'] = draw(st.booleans())
    c['edit_between'] = draw(st.sampled_from([False, True, 'gauge']))
    c['edit_H'] = draw(st.sampled_from([False, False, True]))
    return c


PARTS = [
    Part('tdvp', check_tdvp, strategy=gen_tdvp, n={'quick': 150, 'thorough': 1500}, workers={'quick': 6, 'thorough': 16}),
]
