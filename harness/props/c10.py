"""C10  DMRG energies are variational, consistent with the returned state and monotone."""
import numpy as np
from hypothesis import strategies as st

import pytenet as ptn
from core import Part, require, known_listed
from lanczos_monitor import LanczosMonitor
from gen_dyn import ham_and_state, complete_case, build_ham, dense_ham, dense_state, sector_mask, gauge_edit
from gen_qn import build_mps
from oracle_dense import mps_mask_violation

ID = 'C10'
RULE = ('cases = (Hermitian MPO as in C08 with and without charges, L 2..5, d 2..4, random start state in a sector with arbitrary bond profile; algorithm single-site | two-site; '
        '1..4 sweeps; 2..8 Lanczos iterations or enough (>= local dimension); tol_split in {0, 1e-8, 1e-2} for two-site; optional second invocation on the result); second part: '
        'complete manifolds with enough iterations (exact ground state energy of the sector must be reached). Non-trivial: start energy exceeds the sector ground energy by > 1e-3 scale and a bond >= 2.')
KEY_F5 = 'dmrg-local-eigensolver-past-undetected-lanczos-breakdown'

ASSUME = ['known finding F5 at its DMRG call site: when a local Lanczos iteration of the run continued past an undetected breakdown (observed at run time by wrapping pytenet.krylov.lanczos_iteration and '
          'determining the Krylov dimension independently) the reported energies are not reliable: the energy clauses are excluded and counted on exactly those runs, all structural clauses stay enforced',
          'convergence to the sector ground energy is only judged where it is a theorem for a Krylov-based local solver: complete manifold saturated on one side at every bond, enough '
          'iterations, and a sector block of H that is irreducible (connected); for reducible blocks the run must end in an exact eigenstate of H; a start state (nearly) orthogonal to the ground space is not judged',
          'sector = dense basis states with the total charge of the start state; numpy.linalg.eigvalsh trusted', 'monotonicity of two-site DMRG only judged for tol_split = 0',
          'tolerances 1e-9 max(1, ||H||); ground state convergence (complete manifold) 1e-7 within 6 sweeps for a generic random start']


def run_dmrg(kind, H, psi, sweeps, iters, tol_split):
    if kind == 'single':
        return ptn.calculate_ground_state_local_singlesite(H, psi, sweeps, numiter_lanczos=iters)
    return ptn.calculate_ground_state_local_twosite(H, psi, sweeps, numiter_lanczos=iters, tol_split=tol_split)


def sector_ground_energy(Hd, qd, L, total):
    m = sector_mask(qd, L, total)
    Hs = Hd[np.ix_(m, m)]
    return float(np.linalg.eigvalsh(Hs)[0]), int(m.sum())


def check_dmrg(case, rec):
    H = build_ham(case['ham'])
    psi = build_mps(case['psi'])
    L = len(psi.A); d = len(psi.qd)
    v0 = dense_state(psi)
    n0 = np.linalg.norm(v0)
    if n0 == 0:
        rec.skip('zero state: outside the domain')
        return
    kind = case['algorithm']
    Hd = dense_ham(H)
    scale = max(1.0, np.linalg.norm(Hd, 2))
    total = int(psi.qD[-1][0]) - int(psi.qD[0][0])
    E_gs, sdim = sector_ground_energy(Hd, psi.qd, L, total)
    vn = v0 / n0
    E_start = float(np.vdot(vn, Hd @ vn).real)
    HA0 = [a.copy() for a in H.A]
    q_first = np.array(psi.qD[0]).copy(); q_last = np.array(psi.qD[-1]).copy()
    sweeps = case['sweeps']; iters = case['iters']; tol_split = case['tol_split'] if kind == 'two' else 0
    D_in = psi.bond_dims

    class Excluded(Exception):
        pass

    def one_call(label, E_before):
        with LanczosMonitor() as mon:
            try:
                en = run_dmrg(kind, H, psi, sweeps, iters, tol_split)
            except Exception:
                # a garbage Ritz vector after an undetected Lanczos breakdown can zero a tensor and abort the sweep
                # (`assert nrmv > 0` in the next local solve): same known finding, same signature
                if mon.past_breakdown and known_listed(ID, KEY_F5):
                    rec.label('lanczos_past_breakdown', 'aborted_after_breakdown')
                    rec.excluded_known += 1
                    raise Excluded()
                raise
        energy_ok = True
        if mon.past_breakdown:
            rec.label('lanczos_past_breakdown')
            if known_listed(ID, KEY_F5):
                rec.excluded_known += 1
                energy_ok = False
        en = np.asarray(en)
        require(en.shape == (sweeps,), label + ': wrong shape of the energy array', shape=en.shape)
        require(np.all(np.isfinite(en)) and np.isrealobj(en), label + ': energies not finite real numbers')
        v1 = dense_state(psi)
        require(abs(np.linalg.norm(v1) - 1) <= 1e-10, label + ': returned state is not normalized', norm=float(np.linalg.norm(v1)))
        E1 = float(np.vdot(v1, Hd @ v1).real)
        if tol_split == 0 and energy_ok:
            require(abs(E1 - en[-1]) <= 1e-9 * scale, label + ': energy of the returned state differs from the last reported energy', state=E1, reported=float(en[-1]))
        require((not energy_ok) or np.all(en >= E_gs - 1e-9 * scale), label + ': reported energy below the exact ground state energy of the sector', energies=en.tolist(), ground=E_gs)
        require(E1 >= E_gs - 1e-9 * scale, label + ': state energy below the exact ground state energy of the sector (state left its sector?)', E=E1, ground=E_gs)
        if tol_split == 0 and energy_ok:
            require(en[0] <= E_before + 1e-9 * scale, label + ': first reported energy exceeds the energy of the starting state', first=float(en[0]), start=E_before)
            require(np.all(np.diff(en) <= 1e-9 * scale), label + ': reported energies are not non-increasing', energies=en.tolist())
        if energy_ok:
            rec.metric('variational_margin_violation', max(0.0, float(np.max(E_gs - en))) / scale)
        require(all(a.tobytes() == b.tobytes() for a, b in zip(H.A, HA0)), label + ': the Hamiltonian was modified')
        require(np.array_equal(psi.qD[0], q_first) and np.array_equal(psi.qD[-1], q_last), label + ': total quantum numbers of the state changed')
        out = np.abs(v1[~sector_mask(psi.qd, L, total)])
        require(out.size == 0 or out.max() <= 1e-12, label + ': optimized state left its quantum number sector')
        for i, a in enumerate(psi.A):
            require(len(psi.qD[i]) == a.shape[1] and len(psi.qD[i + 1]) == a.shape[2], label + ': charge list length differs from bond dimension', site=i)
            require(mps_mask_violation(a, psi.qd, psi.qD[i], psi.qD[i + 1]) == 0, label + ': tensor not block sparse', site=i)
        if kind == 'single':
            require(all(a <= b for a, b in zip(psi.bond_dims, D_in)), label + ': single-site DMRG increased a bond dimension', before=D_in, after=psi.bond_dims)
        return E1

    try:
        E1 = one_call('first call', E_start)
        if case['second_call']:
            if case.get('edit_between') == 'gauge':
                # same state in a different gauge (no tensor next to the chosen bond is an isometry any more): the second call
                # must canonicalise it itself and, like every call, not report more than the energy it started from
                if gauge_edit(psi, case['psi']['seed']):
                    rec.label('gauge_change_between_calls')
            elif case.get('edit_between'):
                # user-style edit between the invocations (norm 3): the second call must start from the current tensors
                k = case['psi']['seed'] % L
                psi.A[k] = 3.0 * psi.A[k]
                rec.label('edit_between_calls')
            one_call('second call', E1)
            rec.label('second_call')
    except Excluded:
        return
    rec.label('algorithm_' + kind, 'model_' + (case['ham'].get('model') or 'random'), 'L=%d' % L, 'iters=%d' % iters, 'tol_split=%g' % tol_split)
    rec.label('charges' if any(q != 0 for q in psi.qd) else 'no_charges')
    rec.nontrivial = bool(E_start - E_gs > 1e-3 * scale and max(D_in) >= 2)


@st.composite
def gen_dmrg(draw, tier):
    c = draw(ham_and_state(Lmin=2, Lmax=5, dense_cap=128 if tier == 'quick' else 256, Dmax=4))
    c['algorithm'] = draw(st.sampled_from(['single', 'two']))
    c['sweeps'] = draw(st.sampled_from([2, 1, 3, 4]))
    c['iters'] = draw(st.sampled_from([4, 2, 3, 5, 8, 40]))
    c['tol_split'] = draw(st.sampled_from([0, 0, 0, 1e-8, 1e-2]))
    c['second_call'] = draw(st.booleans())
    c['edit_between'] = draw(st.sampled_from([False, True, 'gauge']))
    return c


def check_converges(case, rec):
    H = build_ham(case['ham'])
    psi = build_mps(case['psi'])
    L = len(psi.A); d = len(psi.qd)
    if L < 2:
        rec.skip('L < 2')
        return
    v0 = dense_state(psi)
    if np.linalg.norm(v0) == 0:
        rec.skip('zero state')
        return
    Hd = dense_ham(H)
    scale = max(1.0, np.linalg.norm(Hd, 2))
    total = int(psi.qD[-1][0]) - int(psi.qD[0][0])
    E_gs, sdim = sector_ground_energy(Hd, psi.qd, L, total)
    D = psi.bond_dims
    kind = case['algorithm']
    # enough iterations = the largest local dimension the sweep can meet (bonds of a complete manifold cannot grow)
    if kind == 'two':
        iters = max(d * d * D[i] * D[i + 2] for i in range(L - 1)) + 2
    else:
        iters = max(d * D[i] * D[i + 1] for i in range(L)) + 2
    with LanczosMonitor() as mon:
        try:
            en = run_dmrg(kind, H, psi, 6, iters, 0)
        except Exception:
            if mon.past_breakdown and known_listed(ID, KEY_F5):
                rec.label('lanczos_past_breakdown', 'aborted_after_breakdown')
                rec.excluded_known += 1
                return
            raise
    if mon.past_breakdown:
        rec.label('lanczos_past_breakdown')
        if known_listed(ID, KEY_F5):
            rec.excluded_known += 1
            return
    require(np.all(np.diff(en) <= 1e-9 * scale), 'reported energies are not non-increasing', energies=np.asarray(en).tolist())
    require(np.all(np.asarray(en) >= E_gs - 1e-9 * scale), 'reported energy below the exact ground state energy', energies=np.asarray(en).tolist(), ground=E_gs)
    m = sector_mask(psi.qd, L, total)
    Hs = Hd[np.ix_(m, m)]
    w, U = np.linalg.eigh(Hs)
    gs = U[:, np.abs(w - w[0]) <= 1e-9 * scale]
    ov = np.linalg.norm(gs.conj().T @ (v0 / np.linalg.norm(v0))[m])
    v1 = dense_state(psi)
    E1 = float(np.vdot(v1, Hd @ v1).real)
    require(abs(E1 - en[-1]) <= 1e-9 * scale, 'energy of the returned state differs from the last reported energy', state=E1, reported=float(en[-1]))
    rec.label('algorithm_' + kind, 'model_' + (case['ham'].get('model') or 'random'), 'L=%d' % L)
    if not all(case['one_sided']):
        rec.label('mixed_saturation')
        rec.skip('mixed saturation: convergence not judged')
        return
    # after a sweep through a site whose local space is the whole sector the state is an exact eigenstate of H
    res = np.linalg.norm(Hd @ v1 - E1 * v1)
    require(res <= 1e-6 * scale, 'DMRG on a complete manifold with enough iterations did not end in an eigenstate of H', residual=res, energies=np.asarray(en).tolist())
    # irreducibility of the sector block (connected coupling graph)
    n = Hs.shape[0]
    adj = np.abs(Hs) > 1e-12 * scale
    seen = {0}; todo = [0]
    while todo:
        a = todo.pop()
        for b in np.nonzero(adj[a])[0]:
            if int(b) not in seen:
                seen.add(int(b)); todo.append(int(b))
    if len(seen) < n:
        rec.label('reducible_sector_block')
        rec.skip('reducible sector block: ground state need not be reachable by a Krylov-based local solver')
        return
    if ov < 1e-3:
        rec.skip('start state (nearly) orthogonal to the ground space')
        return
    require(abs(en[-1] - E_gs) <= 1e-7 * scale, 'exact ground state energy not reached on a complete manifold with enough Lanczos iterations',
            reached=float(en[-1]), ground=E_gs, energies=np.asarray(en).tolist(), sector_dim=sdim)
    rec.metric('gs_err', abs(en[-1] - E_gs) / scale)
    vn = v0 / np.linalg.norm(v0)
    rec.nontrivial = bool(float(np.vdot(vn, Hd @ vn).real) - E_gs > 1e-3 * scale and sdim >= 3)


@st.composite
def gen_converges(draw, tier):
    c = draw(complete_case(Lmax=5, dense_cap=64 if tier == 'quick' else 256))
    c['algorithm'] = draw(st.sampled_from(['single', 'two']))
    return c


PARTS = [
    Part('dmrg', check_dmrg, strategy=gen_dmrg, n={'quick': 250, 'thorough': 2000}, workers={'quick': 6, 'thorough': 16}),
    Part('complete_manifold', check_converges, strategy=gen_converges, n={'quick': 200, 'thorough': 1000}, workers={'quick': 4, 'thorough': 16}),
]
