"""C10  DMRG energies are variational, consistent with the returned state and monotone."""
import numpy as np
from hypothesis import strategies as st

import pytenet as ptn
from core import Part, require, known_listed, Violation
from lanczos_monitor import LanczosMonitor
from gen_dyn import ham_and_state, complete_case, ham_desc, complete_manifold, build_ham, dense_ham, dense_state, sector_mask, gauge_edit, quench_ham
from gen_qn import build_mps
from oracle_dense import mps_mask_violation

ID = 'C10'
RULE = ('cases = (Hermitian MPO as in C08 with and without charges, L 2..5, d 2..4, random start state in a sector with arbitrary bond profile; algorithm single-site | two-site; '
        '1..4 sweeps; 2..8 Lanczos iterations or enough (>= local dimension); tol_split in {0, 1e-8, 1e-2} for two-site; optional second invocation on the result); second part: '
        'complete manifolds with enough iterations (exact ground state energy of the sector must be reached); third part: L = 2 two-site DMRG (the block is the whole space) from basis product states, sparse states and generic states with enough iterations: every reported energy equals the smallest eigenvalue reachable from the start vector. Non-trivial: start energy exceeds the sector ground energy by > 1e-3 scale and a bond >= 2.')
KEY_F5 = 'dmrg-local-eigensolver-past-undetected-lanczos-breakdown'

ASSUME = ['known finding F5 at its DMRG call site: when a local Lanczos iteration of the run continued past an undetected breakdown (observed at run time by wrapping pytenet.krylov.lanczos_iteration and '
          'determining the Krylov dimension independently) the reported energies are not reliable: every clause is judged on every run, and a failing energy clause (or an abort of the sweep) is attributed to the finding - excluded and counted - only on runs that showed this signature; all structural clauses stay enforced',
          'convergence to the sector ground energy is only judged where it is a theorem for a Krylov-based local solver: complete manifold saturated on one side at every bond, enough '
          'iterations, and a sector block of H that is irreducible (connected); for reducible blocks the run must end in an exact eigenstate of H; a start state (nearly) orthogonal to the ground space is not judged',
          'sector = dense basis states with the total charge of the start state; numpy.linalg.eigvalsh trusted', 'monotonicity of two-site DMRG only judged for tol_split = 0',
          'tolerances 1e-9 max(1, ||H||); ground state convergence (complete manifold) 1e-7 within 6 sweeps for a generic random start']


def run_dmrg(kind, H, psi, sweeps, iters, tol_split):
    if kind == 'single':
        if iters == 25:
            return ptn.calculate_ground_state_local_singlesite(H, psi, sweeps)     # documented default numiter_lanczos = 25
        return ptn.calculate_ground_state_local_singlesite(H, psi, sweeps, numiter_lanczos=iters)
    if iters == 25 and tol_split == 0:
        return ptn.calculate_ground_state_local_twosite(H, psi, sweeps)            # documented defaults numiter_lanczos = 25, tol_split = 0
    if tol_split == 0 and iters % 2:
        return ptn.calculate_ground_state_local_twosite(H, psi, sweeps, numiter_lanczos=iters)
    return ptn.calculate_ground_state_local_twosite(H, psi, sweeps, numiter_lanczos=iters, tol_split=tol_split)


def sector_ground_energy(Hd, qd, L, total):
    m = sector_mask(qd, L, total)
    Hs = Hd[np.ix_(m, m)]
    return float(np.linalg.eigvalsh(Hs)[0]), int(m.sum())


def check_dmrg(case, rec):
    H = build_ham(case['ham'])
    psi = build_mps(case['psi'])
    L = len(psi.A); d = len(psi.qd)
    v0 = dense_state(psi)
    n0 = np.linalg.norm(v0)
    if n0 == 0:
        rec.skip('zero state: outside the domain')
        return
    kind = case['algorithm']
    Hd = dense_ham(H)
    scale = max(1.0, np.linalg.norm(Hd, 2))
    total = int(psi.qD[-1][0]) - int(psi.qD[0][0])
    E_gs, sdim = sector_ground_energy(Hd, psi.qd, L, total)
    vn = v0 / n0
    E_start = float(np.vdot(vn, Hd @ vn).real)
    HA0 = [a.copy() for a in H.A]
    q_first = np.array(psi.qD[0]).copy(); q_last = np.array(psi.qD[-1]).copy()
    sweeps = case['sweeps']; iters = case['iters']; tol_split = case['tol_split'] if kind == 'two' else 0
    D_in = psi.bond_dims

    class Excluded(Exception):
        pass

    def one_call(label, E_before):
        with LanczosMonitor() as mon:
            try:
                en = run_dmrg(kind, H, psi, sweeps, iters, tol_split)
            except Exception:
                # a garbage Ritz vector after an undetected Lanczos breakdown can zero a tensor and abort the sweep
                # (`assert nrmv > 0` in the next local solve): same known finding, same signature
                if mon.past_breakdown and known_listed(ID, KEY_F5):
                    rec.label('lanczos_past_breakdown', 'aborted_after_breakdown')
                    rec.excluded_known += 1
                    raise Excluded()
                raise
        # energy clauses are judged on every run; a failing energy clause is attributed to the known finding only if the F5 signature
        # was observed during this very run (runs with the signature that satisfy every clause are ordinary passes)
        excused = []
        if mon.past_breakdown:
            rec.label('lanczos_past_breakdown')

        def ereq(cond, msg, **info):
            if cond:
                return
            if mon.past_breakdown and known_listed(ID, KEY_F5):
                excused.append(msg)
                return
            require(False, msg, **info)
        en = np.asarray(en)
        require(en.shape == (sweeps,), label + ': wrong shape of the energy array', shape=en.shape)
        require(np.all(np.isfinite(en)) and np.isrealobj(en), label + ': energies not finite real numbers')
        v1 = dense_state(psi)
        require(abs(np.linalg.norm(v1) - 1) <= 1e-10, label + ': returned state is not normalized', norm=float(np.linalg.norm(v1)))
        E1 = float(np.vdot(v1, Hd @ v1).real)
        if tol_split == 0:
            ereq(abs(E1 - en[-1]) <= 1e-9 * scale, label + ': energy of the returned state differs from the last reported energy', state=E1, reported=float(en[-1]))
        ereq(np.all(en >= E_gs - 1e-9 * scale), label + ': reported energy below the exact ground state energy of the sector', energies=en.tolist(), ground=E_gs)
        require(E1 >= E_gs - 1e-9 * scale, label + ': state energy below the exact ground state energy of the sector (state left its sector?)', E=E1, ground=E_gs)
        if tol_split == 0:
            ereq(en[0] <= E_before + 1e-9 * scale, label + ': first reported energy exceeds the energy of the starting state', first=float(en[0]), start=E_before)
            ereq(np.all(np.diff(en) <= 1e-9 * scale), label + ': reported energies are not non-increasing', energies=en.tolist())
        if excused:
            rec.label('energy_clause_failure_attributed_to_known_finding')
            rec.excluded_known += 1
        else:
            rec.metric('variational_margin_violation', max(0.0, float(np.max(E_gs - en))) / scale)
        require(all(a.tobytes() == b.tobytes() for a, b in zip(H.A, HA0)), label + ': the Hamiltonian was modified')
        require(np.array_equal(psi.qD[0], q_first) and np.array_equal(psi.qD[-1], q_last), label + ': total quantum numbers of the state changed')
        out = np.abs(v1[~sector_mask(psi.qd, L, total)])
        require(out.size == 0 or out.max() <= 1e-12, label + ': optimized state left its quantum number sector')
        for i, a in enumerate(psi.A):
            require(len(psi.qD[i]) == a.shape[1] and len(psi.qD[i + 1]) == a.shape[2], label + ': charge list length differs from bond dimension', site=i)
            require(mps_mask_violation(a, psi.qd, psi.qD[i], psi.qD[i + 1]) == 0, label + ': tensor not block sparse', site=i)
        if kind == 'single':
            require(all(a <= b for a, b in zip(psi.bond_dims, D_in)), label + ': single-site DMRG increased a bond dimension', before=D_in, after=psi.bond_dims)
        return E1

    try:
        E1 = one_call('first call', E_start)
        if case['second_call']:
            if case.get('edit_between') == 'gauge':
                # same state in a different gauge (no tensor next to the chosen bond is an isometry any more): the second call
                # must canonicalise it itself and, like every call, not report more than the energy it started from
                if gauge_edit(psi, case['psi']['seed']):
                    rec.label('gauge_change_between_calls')
            elif case.get('edit_between'):
                # user-style edit between the invocations (norm 3): the second call must start from the current tensors
                k = case['psi']['seed'] % L
                if case['psi']['seed'] % 2 and np.iscomplexobj(psi.A[k]):
                    psi.A[k] *= 3.0          # in place: the array object (and its id) stays the same
                else:
                    psi.A[k] = 3.0 * psi.A[k]
                rec.label('edit_between_calls')
            if case.get('edit_H') and quench_ham(H, case['ham']):
                # parameter quench on the same MPO object between the invocations: the second call must minimise the operator the
                # object denotes now (all references are recomputed from the current tensors)
                Hd = dense_ham(H)
                scale = max(1.0, np.linalg.norm(Hd, 2))
                E_gs, sdim = sector_ground_energy(Hd, psi.qd, L, total)
                HA0 = [a.copy() for a in H.A]
                vq = dense_state(psi)
                E1 = float(np.vdot(vq, Hd @ vq).real / np.vdot(vq, vq).real)
                rec.label('hamiltonian_changed_between_calls')
            one_call('second call', E1)
            rec.label('second_call')
    except Excluded:
        return
    rec.label('algorithm_' + kind, 'model_' + (case['ham'].get('model') or 'random'), 'L=%d' % L, 'iters=%d' % iters, 'tol_split=%g' % tol_split)
    rec.label('charges' if any(q != 0 for q in psi.qd) else 'no_charges')
    rec.nontrivial = bool(E_start - E_gs > 1e-3 * scale and max(D_in) >= 2)


@st.composite
def gen_dmrg(draw, tier):
    c = draw(ham_and_state(Lmin=2, Lmax=5, dense_cap=128 if tier == 'quick' else 256, Dmax=4))
    c['algorithm'] = draw(st.sampled_from(['single', 'two']))
    c['sweeps'] = draw(st.sampled_from([2, 1, 3, 4]))
    c['iters'] = draw(st.sampled_from([4, 2, 3, 5, 8, 40, 25]))
    c['tol_split'] = draw(st.sampled_from([0, 0, 0, 1e-8, 1e-2]))
    c['second_call'] = draw(st.booleans())
    c['edit_between'] = draw(st.sampled_from([False, True, 'gauge']))
    c['edit_H'] = draw(st.sampled_from([False, False, True]))
    return c


def _attributing(fn):
    """A failing clause is attributed to the known finding F5 only if its run-time signature was observed during the run."""
    def wrapped(case, rec):
        try:
            fn(case, rec)
        except Violation:
            if 'lanczos_past_breakdown' in rec.labels and known_listed(ID, KEY_F5):
                rec.label('failure_attributed_to_known_finding')
                rec.excluded_known += 1
                rec.nontrivial = False
                return
            raise
    wrapped.__name__ = fn.__name__
    wrapped.__doc__ = fn.__doc__
    return wrapped


def _pad_product(psi):
    """Replace the tensors of a complete-manifold state by a computational-basis product state zero-padded into the same bond profile
    (the basis state with the largest amplitude of the random state, hence in the same sector). The bonds are then far larger than the
    Schmidt rank of the state; the manifold is unchanged."""
    v = dense_state(psi)
    L = len(psi.A); d = len(psi.qd)
    idx = int(np.argmax(np.abs(v)))
    digits = [(idx // d ** (L - 1 - i)) % d for i in range(L)]
    q = int(psi.qD[0][0]); pos = 0
    new = []
    for i, sgm in enumerate(digits):
        qn = q + int(psi.qd[sgm])
        cand = [k for k, c in enumerate(np.asarray(psi.qD[i + 1]).tolist()) if c == qn]
        if not cand:
            return False
        a = np.zeros(psi.A[i].shape, dtype=complex)
        a[sgm, pos, cand[0]] = 1.0
        new.append(a)
        q = qn; pos = cand[0]
    psi.A = new
    return True


@_attributing
def check_converges(case, rec):
    H = build_ham(case['ham'])
    psi = build_mps(case['psi'])
    # only for the single-site algorithm: it never changes a bond dimension, so the padded manifold stays complete; the two-site
    # algorithm drops exactly-zero singular values at its first split, after which the premise "complete manifold" no longer holds
    # (a first version padded two-site runs as well and raised a false alarm in the thorough tier: a basis state that every two-site
    # window leaves invariant is a fixed point of any local solver without being an eigenstate of H)
    if case.get('padded_product') and case['algorithm'] == 'single' and len(psi.A) >= 2 and np.linalg.norm(dense_state(psi)) > 0:
        if _pad_product(psi):
            rec.label('zero_padded_product_start')
    L = len(psi.A); d = len(psi.qd)
    if L < 2:
        rec.skip('L < 2')
        return
    v0 = dense_state(psi)
    if np.linalg.norm(v0) == 0:
        rec.skip('zero state')
        return
    Hd = dense_ham(H)
    scale = max(1.0, np.linalg.norm(Hd, 2))
    total = int(psi.qD[-1][0]) - int(psi.qD[0][0])
    E_gs, sdim = sector_ground_energy(Hd, psi.qd, L, total)
    D = psi.bond_dims
    kind = case['algorithm']
    # enough iterations = the largest local dimension the sweep can meet (bonds of a complete manifold cannot grow)
    if kind == 'two':
        iters = max(d * d * D[i] * D[i + 2] for i in range(L - 1)) + 2
    else:
        iters = max(d * D[i] * D[i + 1] for i in range(L)) + 2
    with LanczosMonitor() as mon:
        try:
            en = run_dmrg(kind, H, psi, 6, iters, 0)
        except Exception:
            if mon.past_breakdown and known_listed(ID, KEY_F5):
                rec.label('lanczos_past_breakdown', 'aborted_after_breakdown')
                rec.excluded_known += 1
                return
            raise
    if mon.past_breakdown:
        rec.label('lanczos_past_breakdown')
    require(np.all(np.diff(en) <= 1e-9 * scale), 'reported energies are not non-increasing', energies=np.asarray(en).tolist())
    require(np.all(np.asarray(en) >= E_gs - 1e-9 * scale), 'reported energy below the exact ground state energy', energies=np.asarray(en).tolist(), ground=E_gs)
    m = sector_mask(psi.qd, L, total)
    Hs = Hd[np.ix_(m, m)]
    w, U = np.linalg.eigh(Hs)
    gs = U[:, np.abs(w - w[0]) <= 1e-9 * scale]
    ov = np.linalg.norm(gs.conj().T @ (v0 / np.linalg.norm(v0))[m])
    v1 = dense_state(psi)
    E1 = float(np.vdot(v1, Hd @ v1).real)
    require(abs(E1 - en[-1]) <= 1e-9 * scale, 'energy of the returned state differs from the last reported energy', state=E1, reported=float(en[-1]))
    rec.label('algorithm_' + kind, 'model_' + (case['ham'].get('model') or 'random'), 'L=%d' % L)
    if not all(case['one_sided']):
        rec.label('mixed_saturation')
        rec.skip('mixed saturation: convergence not judged')
        return
    # after a sweep through a site whose local space is the whole sector the state is an exact eigenstate of H
    res = np.linalg.norm(Hd @ v1 - E1 * v1)
    require(res <= 1e-6 * scale, 'DMRG on a complete manifold with enough iterations did not end in an eigenstate of H', residual=res, energies=np.asarray(en).tolist())
    # irreducibility of the sector block (connected coupling graph)
    n = Hs.shape[0]
    adj = np.abs(Hs) > 1e-12 * scale
    seen = {0}; todo = [0]
    while todo:
        a = todo.pop()
        for b in np.nonzero(adj[a])[0]:
            if int(b) not in seen:
                seen.add(int(b)); todo.append(int(b))
    if len(seen) < n:
        rec.label('reducible_sector_block')
        rec.skip('reducible sector block: ground state need not be reachable by a Krylov-based local solver')
        return
    if ov < 1e-3:
        rec.skip('start state (nearly) orthogonal to the ground space')
        return
    if 'zero_padded_product_start' in rec.labels:
        # a structured (basis) start may lose its ground-state component exactly in the first local steps when H has a symmetry the
        # charges do not encode (observed: total spin of the spin-orbital model, the run ends in the lowest triplet state): reaching an
        # eigenstate is judged above, reaching the GROUND state is a theorem only for generic starts
        rec.skip('structured start: ground energy not judged (eigenstate clause is)')
        return
    require(abs(en[-1] - E_gs) <= 1e-7 * scale, 'exact ground state energy not reached on a complete manifold with enough Lanczos iterations',
            reached=float(en[-1]), ground=E_gs, energies=np.asarray(en).tolist(), sector_dim=sdim)
    rec.metric('gs_err', abs(en[-1] - E_gs) / scale)
    vn = v0 / np.linalg.norm(v0)
    rec.nontrivial = bool(float(np.vdot(vn, Hd @ vn).real) - E_gs > 1e-3 * scale and sdim >= 3)


@st.composite
def gen_converges(draw, tier):
    c = draw(complete_case(Lmax=5, dense_cap=64 if tier == 'quick' else 256))
    c['algorithm'] = draw(st.sampled_from(['single', 'two']))
    c['padded_product'] = draw(st.sampled_from([False, False, True]))
    return c


@_attributing
def check_full_block(case, rec):
    """L = 2, two-site DMRG with zero split tolerance: the single two-site block is the whole state space, so with enough Lanczos
    iterations the local solve is a global Krylov solve and the first reported energy is the smallest eigenvalue reachable from
    the start vector (C15), whatever the start state looks like (basis product state, sparse, generic)."""
    H = build_ham(case['ham'])
    qd = [int(q) for q in H.qd]
    d = len(qd)
    rng = np.random.default_rng(case['seed'])
    kind = case['start']
    q0 = case['q0']
    if kind == 'basis':
        s0, s1 = case['path']
        qD = [[q0], [q0 + qd[s0]], [q0 + qd[s0] + qd[s1]]]
    else:
        qD, _ = complete_manifold(qd, 2, case['path'])
        qD = [[q + q0 for q in qs] for qs in qD]
    psi = ptn.MPS(qd, qD, fill='postpone')
    A = []
    for i in range(2):
        shape = (d, len(qD[i]), len(qD[i + 1]))
        mask = np.add.outer(np.add.outer(np.asarray(qd), np.asarray(qD[i])), -np.asarray(qD[i + 1])) == 0
        X = rng.normal(size=shape) + (1j * rng.normal(size=shape) if case['complex'] else 0)
        if kind == 'sparse':
            X = np.where(rng.random(size=shape) < 0.4, X, 0)
        A.append(np.where(mask, X, 0) * case['scale'])
    psi.A = A
    v0 = dense_state(psi)
    n0 = np.linalg.norm(v0)
    if n0 == 0:
        rec.skip('zero state')
        return
    Hd = dense_ham(H)
    scale = max(1.0, np.linalg.norm(Hd, 2))
    w, U = np.linalg.eigh(Hd)
    comp = np.abs(U.conj().T @ (v0 / n0)) ** 2
    # eigenvalue clusters and the weight of the start vector in each
    clusters = []
    for lam, c in zip(w, comp):
        if clusters and abs(lam - clusters[-1][0]) <= 1e-9 * scale:
            clusters[-1][1] += c
        else:
            clusters.append([lam, c])
    wts = np.sqrt(np.array([c for _, c in clusters]))
    if np.any((wts > 1e-12) & (wts < 1e-5)):
        rec.skip('start vector has a nearly vanishing eigen-component: reachable spectrum numerically fuzzy')
        return
    target = min(lam for (lam, _), x in zip(clusters, wts) if x >= 1e-5)
    kdim = int(np.sum(wts >= 1e-5))
    iters = d * d + 2
    HA0 = [a.copy() for a in H.A]
    with LanczosMonitor() as mon:
        try:
            en = ptn.calculate_ground_state_local_twosite(H, psi, case['sweeps'], numiter_lanczos=iters, tol_split=0)
        except Exception:
            if mon.past_breakdown and known_listed(ID, KEY_F5):
                rec.label('lanczos_past_breakdown', 'aborted_after_breakdown')
                rec.excluded_known += 1
                return
            raise
    rec.label('start_' + kind, 'model_' + (case['ham'].get('model') or 'random'), 'krylov_dim=%d' % min(kdim, 6))
    if mon.past_breakdown:
        rec.label('lanczos_past_breakdown')
    en = np.asarray(en)
    require(en.shape == (case['sweeps'],), 'wrong shape of the energy array', shape=en.shape)
    require(np.all(np.abs(en - target) <= 1e-8 * scale), 'two-site DMRG on L = 2 (block = whole space, enough iterations) did not reach the smallest eigenvalue reachable from the start vector',
            energies=en.tolist(), reachable_minimum=float(target), start_energy=float(np.vdot(v0, Hd @ v0).real / n0 ** 2), krylov_dim=kdim)
    v1 = dense_state(psi)
    require(abs(np.linalg.norm(v1) - 1) <= 1e-10, 'returned state is not normalized')
    res = np.linalg.norm(Hd @ v1 - en[-1] * v1)
    require(res <= 1e-6 * scale, 'returned state is not an eigenvector for the reported energy', residual=float(res))
    require(all(a.tobytes() == b.tobytes() for a, b in zip(H.A, HA0)), 'the Hamiltonian was modified')
    require(np.array_equal(psi.qD[0], qD[0]) and np.array_equal(psi.qD[-1], qD[-1]), 'total quantum numbers of the state changed')
    for i, a in enumerate(psi.A):
        require(len(psi.qD[i]) == a.shape[1] and len(psi.qD[i + 1]) == a.shape[2], 'charge list length differs from bond dimension', site=i)
        require(mps_mask_violation(a, psi.qd, psi.qD[i], psi.qD[i + 1]) == 0, 'tensor not block sparse', site=i)
    rec.metric('full_block_err', float(np.max(np.abs(en - target))) / scale)
    rec.nontrivial = bool(kdim >= 2 and float(np.vdot(v0, Hd @ v0).real / n0 ** 2) - target > 1e-3 * scale)


@st.composite
def gen_full_block(draw, tier):
    h = draw(ham_desc(Lmin=2, Lmax=2, dense_cap=256))
    d = h['d']
    return {'ham': h, 'start': draw(st.sampled_from(['basis', 'basis', 'sparse', 'random'])), 'path': [draw(st.integers(0, d - 1)), draw(st.integers(0, d - 1))],
            'q0': draw(st.sampled_from([0, 0, 2, -1])), 'complex': draw(st.booleans()), 'scale': draw(st.sampled_from([1.0, 1.0, 0.01, 30.0])),
            'sweeps': draw(st.sampled_from([1, 2, 3])), 'seed': draw(st.integers(0, 2**31 - 1))}


PARTS = [
    Part('full_block', check_full_block, strategy=gen_full_block, n={'quick': 200, 'thorough': 3000}, workers={'quick': 4, 'thorough': 16},
         doc='L = 2 two-site DMRG from basis product states, sparse and generic states: the reachable minimum must be reported'),
    Part('dmrg', check_dmrg, strategy=gen_dmrg, n={'quick': 250, 'thorough': 2000}, workers={'quick': 6, 'thorough': 16}),
    Part('complete_manifold', check_converges, strategy=gen_converges, n={'quick': 200, 'thorough': 1000}, workers={'quick': 4, 'thorough': 16}),
]
