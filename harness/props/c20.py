"""C20  Compiled Hamiltonian MPOs are as compact as the operator allows."""
import copy
import numpy as np
from hypothesis import strategies as st

import pytenet as ptn
from core import Part, require
from oracle_dense import mpo_to_mat, operator_schmidt_values
from gen_graph import chain_list, build_chains, layered_graph, build_graph, physical_charges, random_opmap, OID_ID, with_identity_id, opmap_with_identity_id
from oracle_sym import graph_layers

ID = 'C20'
RULE = ('cases = (a) (model, L, seed): xxz spin-1/2, xxz spin-1, bose-hubbard d=2..4, fermi-hubbard (chain construction), ising (automaton), spinless and '
        'spin-orbital molecular Hamiltonians (optimized construction) for L from 2 to dense reach; three independent generic parameter draws (modulus in [0.3,1.7], random '
        'signs) per case, generic operator Schmidt rank per cut = maximum numerical rank over the draws, accepted only with a spectral gap; (b) random chain lists: every '
        'bond dimension <= number of chains with non-zero coefficient; (c) simplify on compiled / generated graphs never increases a bond dimension. '
        'Non-trivial: a cut with rank >= 3 (a), >= 3 chains (b), a graph that simplify actually shrank (c).')
ASSUME = ['a bond dimension below the operator Schmidt rank is impossible for a correct MPO (that is C06/C07); only D > rank is judged here',
          'rank decisions need sigma_r/sigma_1 > 1e-7 and sigma_{r+1}/sigma_1 < 1e-11, otherwise the cut is counted as inconclusive']


def gen_params(rng, n):
    return [float(rng.uniform(0.3, 1.7) * rng.choice([-1, 1])) for _ in range(n)]


def build_model(case, rng):
    m = case['model']; L = case['L']
    if m == 'ising':
        return ptn.ising_mpo(L, *gen_params(rng, 3))
    if m == 'xxz':
        return ptn.heisenberg_xxz_mpo(L, *gen_params(rng, 3))
    if m == 'xxz1':
        return ptn.heisenberg_xxz_spin1_mpo(L, *gen_params(rng, 3))
    if m == 'bose':
        return ptn.bose_hubbard_mpo(case['d'], L, *gen_params(rng, 3))
    if m == 'fermi_hubbard':
        return ptn.fermi_hubbard_mpo(L, *gen_params(rng, 3))
    if m in ('molecular', 'spin_molecular'):
        cplx = case.get('complex', False)

        def rnd(shape):
            x = rng.uniform(0.3, 1.7, size=shape) * rng.choice([-1, 1], size=shape)
            if cplx:
                x = x * np.exp(2j * np.pi * rng.random(size=shape))
            return x
        t = rnd((L, L)); v = rnd((L, L, L, L))
        # the flag in its legal truthy forms: Python bool, NumPy bool (e.g. the result of np.any), integer
        flag = [True, np.True_, 1][case['seed'] % 3]
        if m == 'molecular':
            return ptn.molecular_hamiltonian_mpo(t, v, optimize=flag)
        return ptn.spin_molecular_hamiltonian_mpo(t, v, optimize=flag)
    raise ValueError(m)


def numeric_rank(sv):
    """(rank, conclusive)"""
    if len(sv) == 0 or sv[0] == 0:
        return 0, True
    rel = sv / sv[0]
    r = int(np.sum(rel > 1e-9))
    ok = (rel[r - 1] > 1e-7) and (r == len(rel) or rel[r] < 1e-11)
    return r, bool(ok)


def check_model(case, rec):
    L = case['L']
    rng = np.random.default_rng(case['seed'])
    mpos = [build_model(case, rng) for _ in range(3)]
    d = len(mpos[0].qd)
    dims = [m.bond_dims for m in mpos]
    ranks = []
    concl = []
    for m in mpos:
        M = mpo_to_mat([np.asarray(a, dtype=complex) for a in m.A])
        rk = []; ck = []
        for cut in range(1, L):
            r, ok = numeric_rank(operator_schmidt_values(M, d, L, cut))
            rk.append(r); ck.append(ok)
        ranks.append(rk); concl.append(ck)
    maxrank = 0
    for ci, cut in enumerate(range(1, L)):
        if not all(c[ci] for c in concl):
            rec.skip('rank decision without spectral gap')
            continue
        generic = max(r[ci] for r in ranks)
        maxrank = max(maxrank, generic)
        for k, D in enumerate(dims):
            require(D[cut] <= generic, 'bond dimension exceeds the operator Schmidt rank of the generic operator',
                    model=case['model'], L=L, cut=cut, bond_dim=D[cut], generic_rank=generic, ranks=[r[ci] for r in ranks], bond_dims=D)
            require(D[cut] >= ranks[k][ci], 'bond dimension below the operator Schmidt rank (dense form cannot be right)',
                    model=case['model'], L=L, cut=cut, bond_dim=D[cut], rank=ranks[k][ci])
    for D in dims:
        require(D[0] == 1 and D[-1] == 1, 'outer bond dimensions are not one', bond_dims=D)
    rec.label('model_' + case['model'], 'L=%d' % L)
    rec.metric('max_rank', maxrank)
    rec.nontrivial = bool(maxrank >= 3)


@st.composite
def gen_model(draw, tier):
    cap = 256 if tier == 'quick' else 1024
    m = draw(st.sampled_from(['ising', 'xxz', 'xxz1', 'bose', 'fermi_hubbard', 'molecular', 'molecular', 'spin_molecular']))
    case = {'model': m, 'seed': draw(st.integers(0, 2**31 - 1))}
    d = {'ising': 2, 'xxz': 2, 'xxz1': 3, 'fermi_hubbard': 4, 'molecular': 2, 'spin_molecular': 4}.get(m)
    if m == 'bose':
        d = draw(st.sampled_from([2, 3, 4])); case['d'] = d
    if m in ('molecular', 'spin_molecular'):
        case['complex'] = draw(st.booleans())
    Lmax = 2
    while d ** (Lmax + 1) <= cap:
        Lmax += 1
    if m == 'molecular':
        Lmax = min(Lmax, 7 if tier == 'quick' else 8)
    if m == 'spin_molecular':
        Lmax = min(Lmax, 3 if tier == 'quick' else 4)
    case['L'] = draw(st.sampled_from(list(range(2, Lmax + 1))))
    return case


def check_chain_bound(case, rec):
    L = case['L']
    ident = [0, 0, 5, -4][case['chains'][0]['istart'] % 4 if case['chains'] else 0] if len(case['chains']) % 2 else 0
    case = with_identity_id(case, ident)
    OID_ID = ident
    nz = [c for c in case['chains'] if c['coeff'] != 0]
    if not nz:
        rec.skip('all coefficients zero')
        return
    graph = ptn.OpGraph.from_opchains(build_chains(case), L, OID_ID)
    widths = [len(l) for l in graph_layers(graph)]
    require(len(widths) == L + 1, 'graph has the wrong number of layers')
    for cut, w in enumerate(widths):
        require(w <= len(nz), 'bond dimension exceeds the number of chains with non-zero coefficient', cut=cut, width=w, chains=len(nz), widths=widths)
    # distinct padded monomials are an even sharper bound for a sum of product operators
    keys = {tuple([OID_ID] * c['istart'] + c['oids'] + [OID_ID] * (L - c['istart'] - len(c['oids']))) + tuple(
        [0] * c['istart'] + c['qnums'] + [0] * (L - c['istart'] - len(c['oids']))) for c in nz}
    for cut, w in enumerate(widths):
        require(w <= len(keys), 'bond dimension exceeds the number of distinct chains', cut=cut, width=w, distinct=len(keys), widths=widths)
    qd = physical_charges(False, 0, L)
    if all(all(q == 0 for q in c['qnums']) for c in nz):
        mpo = ptn.MPO.from_opgraph(qd, graph, opmap_with_identity_id(random_opmap(qd, False, 1), ident))
        require(mpo.bond_dims == widths, 'MPO bond dimensions differ from the graph layer widths', bond_dims=mpo.bond_dims, widths=widths)
    # simplify never increases a bond dimension
    g2 = copy.deepcopy(graph)
    g2.simplify()
    w2 = [len(l) for l in graph_layers(g2)]
    require(all(a >= b for a, b in zip(widths, w2)), 'simplify increased a bond dimension', before=widths, after=w2)
    rec.label('L=%d' % L, 'chains=%d' % min(len(nz), 10))
    if max(widths) < len(keys):
        rec.label('shared_structure_exploited')
    rec.nontrivial = bool(len(keys) >= 3)


def check_simplify_widths(case, rec):
    g = build_graph(case['graph'])
    w0 = [len(l) for l in graph_layers(g)]
    n0 = (len(g.nodes), len(g.edges))
    g.simplify()
    w1 = [len(l) for l in graph_layers(g)]
    require(len(w0) == len(w1), 'simplify changed the number of layers')
    require(all(a >= b for a, b in zip(w0, w1)), 'simplify increased a bond dimension', before=w0, after=w1)
    require(len(g.nodes) <= n0[0] and len(g.edges) <= n0[1], 'simplify increased the number of nodes or edges')
    # idempotent: a second simplify finds nothing more
    snap = (sorted(g.nodes.keys()), sorted(g.edges.keys()))
    g.simplify()
    require((sorted(g.nodes.keys()), sorted(g.edges.keys())) == snap, 'simplify is not idempotent')
    if w1 != w0:
        rec.label('shrunk')
    rec.nontrivial = bool(w1 != w0)


@st.composite
def gen_simplify(draw, tier):
    return {'graph': draw(layered_graph(Lmax=6, wmax=4))}


PARTS = [
    Part('models', check_model, strategy=gen_model, n={'quick': 40, 'thorough': 400}, workers={'quick': 4, 'thorough': 16}, shrink=False),
    Part('chain_bound', check_chain_bound, strategy=lambda tier: chain_list(Lmax=8, nmax=12), n={'quick': 300, 'thorough': 5000},
         workers={'quick': 2, 'thorough': 16}),
    Part('simplify_widths', check_simplify_widths, strategy=gen_simplify, n={'quick': 300, 'thorough': 5000}, workers={'quick': 2, 'thorough': 16}),
]
