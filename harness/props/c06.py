"""C06  Built-in lattice Hamiltonians equal their textbook definitions."""
import numpy as np
from hypothesis import strategies as st

import pytenet as ptn
from core import Part, require
import oracle_fock as ref
from oracle_dense import mpo_to_mat, mpo_mask_violation, basis_charges

ID = 'C06'
RULE = ('cases = (model in {ising, xxz spin-1/2, xxz spin-1, bose-hubbard d=1..5, fermi-hubbard, linear fermionic c / a}, L from 1 to dense reach, parameters drawn '
        'independently from {0, +-1, +-0.5, generic floats in +-[0.1,3], tiny 1e-22..1e-5 and huge 1e3..1e6 magnitudes} so that vanishing couplings and sign changes are frequent; complex coefficient vectors with zeros for the '
        'linear fermionic operators). Non-trivial: reference operator non-zero and L >= 2. Identically-zero operators are outside the domain and only counted.')
ASSUME = ['reference operators are built in the harness from occupation-number states / spin matrices (Jordan-Wigner sign = parity of occupied modes to the right)',
          'dense reach d^L <= 1024 (thorough 2048); tolerance 1e-12 max(1, ||H_ref||)']

PARAM = st.one_of(st.sampled_from([0.0, 1.0, -1.0, 0.5, -0.5]), st.sampled_from([0.0, 1.0, -1.0]),
                  st.floats(0.1, 3.0), st.floats(-3.0, -0.1),
                  # every parameter value: weak couplings next to O(1) ones, and uniformly tiny / huge scales
                  st.sampled_from([1e-9, -1e-9, 1e-5, 3e-12, 1e-22, -2.5e-16, 1e6, -4e3]),
                  # Python integers are legal parameter values too
                  st.sampled_from([1, -1, 2, 0, -3]))

# expected physical charge per local basis state (what the model conserves); the MPO's `qd` must separate
# local states at least as finely
EXPECTED_Q = {
    'ising': None,
    'xxz': [1, -1],
    'xxz1': [1, 0, -1],
    'fermi_hubbard': [(0, 0), (1, -1), (1, 1), (2, 0)],
    'linear_c': [0, 1], 'linear_a': [0, 1],
}


def reference(case):
    m = case['model']; L = case['L']; p = case.get('params')
    if m == 'ising':
        return ref.ising(L, *p), 2
    if m == 'xxz':
        return ref.heisenberg_xxz(L, *p, s2=1), 2
    if m == 'xxz1':
        return ref.heisenberg_xxz(L, *p, s2=2), 3
    if m == 'bose':
        return ref.bose_hubbard(case['d'], L, *p), case['d']
    if m == 'fermi_hubbard':
        return ref.fermi_hubbard(L, *p), 4
    if m in ('linear_c', 'linear_a'):
        return ref.linear_fermionic(linear_coefficients(case)[1], 'c' if m == 'linear_c' else 'a'), 2
    raise ValueError(m)


def linear_coefficients(case):
    """(argument handed to linear_fermionic_mpo, the same values as Python complex numbers). The coefficient vector is passed in its
    legal container and scalar forms: list / tuple / ndarray; float64, complex128, complex64, float32, extended precision, Python int;
    narrower types are converted first, so that the reference uses exactly the values the library receives."""
    c = [complex(x[0], x[1]) for x in case['coeff']]
    cd = case.get('cdtype')
    isreal = all(z.imag == 0 for z in c)
    if cd == 'complex64':
        arr = np.array(c, dtype=np.complex64)
        return ([z for z in arr] if len(c) % 2 else arr), [complex(z) for z in arr]
    if cd == 'clongdouble':
        arr = np.array(c, dtype=np.clongdouble)
        return arr, c
    if cd == 'float32' and isreal:
        arr = np.array([z.real for z in c], dtype=np.float32)
        return arr, [complex(float(z)) for z in arr]
    if cd == 'int' and isreal and all(z.real.is_integer() for z in c):
        return [int(z.real) for z in c], c
    if isreal and case.get('real_coeff'):
        c2 = [z.real for z in c]
    else:
        c2 = c
    k = len(c) % 3
    return (c2 if k == 0 else (tuple(c2) if k == 1 else np.array(c2))), c


def _ptyped(p, ptype):
    """The same parameter values as NumPy scalars (where the value is exactly representable in the narrower type)."""
    if p is None or not ptype:
        return p
    out = []
    for x in p:
        # (no float32 here: a single-precision parameter mixed with double-precision ones makes NumPy evaluate the model's coefficient
        # formulas in single precision - the caller's choice, not a defect)
        if ptype == 'float64':
            out.append(np.float64(x))
        elif ptype == 'int64' and float(x).is_integer() and abs(x) < 2**31:
            out.append(np.int64(int(x)))
        elif ptype == 'longdouble':
            out.append(np.longdouble(x))
        else:
            out.append(x)
    return out


def construct(case):
    m = case['model']; L = case['L']; p = _ptyped(case.get('params'), case.get('ptype'))
    if m == 'ising':
        return ptn.ising_mpo(L, *p)
    if m == 'xxz':
        return ptn.heisenberg_xxz_mpo(L, *p)
    if m == 'xxz1':
        return ptn.heisenberg_xxz_spin1_mpo(L, *p)
    if m == 'bose':
        return ptn.bose_hubbard_mpo(case['d'], L, *p)
    if m == 'fermi_hubbard':
        return ptn.fermi_hubbard_mpo(L, *p)
    if m in ('linear_c', 'linear_a'):
        rec_form = linear_coefficients(case)[0]
        return ptn.linear_fermionic_mpo(rec_form, case['ftype'])
    raise ValueError(m)


def check_model(case, rec):
    m = case['model']; L = case['L']
    Href, d = reference(case)
    nref = np.linalg.norm(Href)
    rec.label('model_' + m, 'L=%d' % L)
    if nref == 0:
        # identically-zero operator: outside the domain; constructors may raise
        try:
            mpo = construct(case)
        except Exception:
            rec.skip('identically-zero operator (constructor raised)')
            rec.label('zero_operator')
            return
        rec.label('zero_operator')
    else:
        mpo = construct(case)
    require(mpo.nsites == L, 'wrong number of sites', got=mpo.nsites, want=L)
    require(len(mpo.qd) == d, 'wrong physical dimension', got=len(mpo.qd), want=d)
    if L <= 4:
        # constructors keep no state between calls: another model built in between, then the same call again, gives the same
        # tensors, and the object built first is still what it was
        A_first = [np.array(a, copy=True) for a in mpo.A]
        ptn.ising_mpo(L + 1, 0.3, -0.7, 1.1); ptn.bose_hubbard_mpo(3, max(2, L - 1), 0.4, 1.3, -0.2); ptn.fermi_hubbard_mpo(2, 1.0, 2.0, 0.5)
        mpo_again = construct(case)
        require(all(np.array_equal(a, b) for a, b in zip(mpo.A, A_first)), 'an MPO built earlier changed when other models were constructed')
        require(len(mpo_again.A) == len(mpo.A) and all(a.shape == b.shape and np.array_equal(a, b) for a, b in zip(mpo_again.A, mpo.A))
                and all(np.array_equal(p, q) for p, q in zip(mpo_again.qD, mpo.qD)),
                'the same constructor call gives a different MPO after other models were constructed', bond_dims=[mpo.bond_dims, mpo_again.bond_dims])
        rec.label('repeated_construction')
    M = mpo_to_mat([np.asarray(a, dtype=complex) for a in mpo.A])
    require(M.shape == Href.shape, 'dense matrix has the wrong shape', got=M.shape, want=Href.shape)
    err = np.linalg.norm(M - Href)
    scale = nref if nref > 0 else 1.0     # every model is linear in its parameters: errors are relative to the operator norm
    require(err <= 1e-12 * scale * max(1, L), 'MPO matrix differs from the textbook Hamiltonian', err=err, norm=nref)
    rec.metric('dense_err', err / scale)
    own = mpo.as_matrix()
    require(np.linalg.norm(np.asarray(own) - M) <= 1e-12 * scale, 'as_matrix differs from the independent contraction')
    if M.shape[0] <= 256:
        # the sparse matrix form as well (couplings far below one put very different scales into the bond channels)
        own_s = np.asarray(mpo.as_matrix(sparse_format=True).todense())
        require(np.linalg.norm(own_s - M) <= 1e-12 * scale, 'sparse as_matrix differs from the independent contraction', err=float(np.linalg.norm(own_s - M)), norm=nref)
    if m not in ('linear_c', 'linear_a'):
        eh = np.linalg.norm(M - M.conj().T)
        require(eh <= 1e-12 * scale, 'Hamiltonian is not Hermitian for real parameters', err=eh)
    # quantum numbers: list lengths, block sparsity of every tensor, selection rule of the dense matrix
    require(len(mpo.qD) == L + 1, 'wrong number of bond charge lists')
    for i, A in enumerate(mpo.A):
        require(len(mpo.qD[i]) == A.shape[2] and len(mpo.qD[i + 1]) == A.shape[3], 'charge list length differs from bond dimension', site=i)
        mv = mpo_mask_violation(A, mpo.qd, mpo.qD[i], mpo.qD[i + 1])
        require(mv == 0, 'tensor not block sparse under its quantum numbers', site=i, max_entry=mv)
    require(len(mpo.qD[0]) == 1 and len(mpo.qD[-1]) == 1, 'outer bonds must have dimension one')
    shift = int(mpo.qD[-1][0]) - int(mpo.qD[0][0])
    q = basis_charges(np.asarray(mpo.qd, dtype=np.int64), L)
    nzr, nzc = np.nonzero(np.abs(M) > 1e-13 * scale)
    bad = np.nonzero(q[nzr] - q[nzc] != shift)[0]
    require(len(bad) == 0, 'dense matrix connects basis states whose total charge does not differ by the fixed shift', shift=shift,
            example=[int(nzr[bad[0]]), int(nzc[bad[0]])] if len(bad) else None)
    # the stored physical charges must resolve the conserved physical quantity
    if m == 'bose':
        exp = list(range(d))
    else:
        exp = EXPECTED_Q.get(m)
    if exp is not None:
        qd = [int(x) for x in mpo.qd]
        for a in range(d):
            for b in range(d):
                if exp[a] != exp[b]:
                    require(qd[a] != qd[b], 'physical quantum numbers do not distinguish states of different particle number / magnetization',
                            qd=qd, states=[a, b])
    if m in ('linear_c', 'linear_a'):
        want = 1 if m == 'linear_c' else -1
        require(shift * (int(mpo.qd[1]) - int(mpo.qd[0])) == want * (int(mpo.qd[1]) - int(mpo.qd[0])) ** 2,
                'linear fermionic operator does not shift the particle number by one', shift=shift)
    p = case.get('params') or []
    for k, v in enumerate(p):
        if v == 0:
            rec.label('param%d=0' % k)
    longest = {'ising': 2, 'xxz': 2, 'xxz1': 2, 'bose': 2, 'fermi_hubbard': 2}.get(m, 1)
    if L < longest:
        rec.label('L_shorter_than_longest_term')
    if m == 'bose':
        rec.label('d=%d' % d)
    rec.nontrivial = bool(nref > 0 and L >= 2)


@st.composite
def gen_model(draw, tier):
    cap = 1024 if tier == 'quick' else 2048
    m = draw(st.sampled_from(['ising', 'xxz', 'xxz1', 'bose', 'fermi_hubbard', 'linear_c', 'linear_a']))
    d = {'ising': 2, 'xxz': 2, 'xxz1': 3, 'fermi_hubbard': 4, 'linear_c': 2, 'linear_a': 2}.get(m)
    case = {'model': m}
    if m == 'bose':
        d = draw(st.sampled_from([2, 3, 4, 5, 1]))
        case['d'] = d
    Lmax = 1
    while max(d, 2) ** (Lmax + 1) <= cap and Lmax < 10:
        Lmax += 1
    L = draw(st.sampled_from([l for l in range(2, Lmax + 1)] + [1]))
    case['L'] = L
    if m in ('linear_c', 'linear_a'):
        coeff = []
        for _ in range(L):
            kind = draw(st.sampled_from(['c', 'c', 'r', 'z', 'one']))
            if kind == 'c':
                coeff.append([draw(st.floats(-2, 2)), draw(st.floats(-2, 2))])
            elif kind == 'r':
                coeff.append([draw(st.floats(-2, 2)), 0.0])
            elif kind == 'z':
                coeff.append([0.0, 0.0])
            else:
                coeff.append([1.0, 0.0])
        case['coeff'] = coeff
        case['real_coeff'] = draw(st.booleans())
        case['cdtype'] = draw(st.sampled_from([None, None, 'complex64', 'float32', 'clongdouble', 'int']))
        case['ftype'] = draw(st.sampled_from(['c', 'create', 'creation'] if m == 'linear_c' else ['a', 'annihilate', 'annihilation']))
    else:
        case['params'] = [draw(PARAM) for _ in range(3)]
        case['ptype'] = draw(st.sampled_from([None, None, None, 'float64', 'int64', 'longdouble']))
    return case


PARTS = [
    Part('models', check_model, strategy=gen_model, n={'quick': 250, 'thorough': 1500}, workers={'quick': 4, 'thorough': 16}),
]
