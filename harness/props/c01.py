"""C01  Orthonormalization never changes the represented state or operator."""
import numpy as np
from hypothesis import strategies as st

import pytenet as ptn
from core import Part, require
from gen_qn import mps_desc, mpo_desc, build_mps, build_mpo, ENTRY_STYLES
from oracle_dense import mps_to_vec, mpo_to_mat, mps_mask_violation, mpo_mask_violation

ID = 'C01'
RULE = ('cases = (class MPS|MPO, mode left|right, physical charges of dimension 1..4 (MPO 1..3), L in 1..6 with d^L bounded, bond charge '
        'lists constructed along 1..3 complete charge paths plus extra reachable / junk charges in drawn order (sorted, unsorted, '
        'repeated, bond dimension 1, over-complete, sector-disjoint = zero state), entry style: complex / real / integer-valued / integer dtype / '
        'duplicated columns / zeroed blocks). Non-trivial: non-zero state, L >= 2 and some bond dimension >= 2.')
ASSUME = ['dense reach d^L <= 4096 (MPO: d^(2L) <= 2^20)', 'tolerances 1e-11 relative to max(1, norm); 2e-4 for tensors stored in single precision (complex64 / float32), which the library factorises in single precision']

TOL_DOUBLE = 1e-11
TOL_SINGLE = 2e-4


def _common(obj, kind, mode, desc, rec, tmag_override=None, tol=None):
    TOL = tol if tol is not None else TOL_DOUBLE     # single-precision tensors are factorised in single precision
    is_mps = kind == 'mps'
    to_dense = mps_to_vec if is_mps else mpo_to_mat
    maskv = mps_mask_violation if is_mps else mpo_mask_violation
    L = len(obj.A)
    d = len(desc['qd'])
    bax = 1 if is_mps else 2  # axis of the left bond
    v0 = np.asarray(to_dense([np.asarray(a, dtype=complex) for a in obj.A]))
    n0 = float(np.linalg.norm(v0))
    D_old = [a.shape[bax] for a in obj.A] + [obj.A[-1].shape[bax + 1]]
    q_first = np.array(obj.qD[0]).copy(); q_last = np.array(obj.qD[-1]).copy()
    # rounding scale: the norm itself, or (for states that are small through cancellation) the product of the tensor norms
    tmag = 1.0
    for a in obj.A:
        tmag *= float(np.linalg.norm(np.asarray(a, dtype=complex)))
    if tmag_override is not None:
        tmag = tmag_override          # rounding scale of the tensors before an exact (power-of-two) gauge change
    scale = max(n0, 1e-3 * tmag, 1e-300)
    # 'left' is the documented default of `mode`: half of the left-mode cases rely on it
    if mode == 'left' and desc['seed'] % 2:
        nrm = obj.orthonormalize()
        rec.label('default_mode_argument')
    else:
        nrm = obj.orthonormalize(mode=mode)
    require(np.ndim(nrm) == 0 and np.isreal(nrm) and np.isfinite(nrm), 'returned factor is not a finite real scalar', nrm=repr(nrm))
    nrm = float(np.real(nrm))
    require(nrm >= 0, 'returned factor is negative', nrm=nrm)
    require(abs(nrm - n0) <= TOL * scale, 'returned factor differs from the norm of the original object', nrm=nrm, norm=n0)
    require(len(obj.A) == L and len(obj.qD) == L + 1, 'number of tensors / charge lists changed')
    for i, a in enumerate(obj.A):
        require(np.all(np.isfinite(a)), 'non-finite tensor entry after orthonormalization', site=i)
    v1 = np.asarray(to_dense([np.asarray(a, dtype=complex) for a in obj.A]))
    err = float(np.linalg.norm(nrm * v1 - v0))
    require(err <= TOL * scale, 'factor times new dense form differs from the original dense form', err=err, norm=n0, nrm=nrm)
    rec.metric('dense_err', err / scale)
    D_new = [a.shape[bax] for a in obj.A] + [obj.A[-1].shape[bax + 1]]
    pd = d if is_mps else d * d
    for i, a in enumerate(obj.A):
        # list lengths and sparsity
        require(len(obj.qD[i]) == a.shape[bax] and len(obj.qD[i + 1]) == a.shape[bax + 1],
                'charge list length differs from the bond dimension', site=i)
        mv = maskv(a, obj.qd, obj.qD[i], obj.qD[i + 1])
        require(mv == 0, 'tensor not block sparse under the new charges', site=i, max_entry=mv)
        # isometry in the chosen direction
        if mode == 'left':
            M = a.reshape(-1, a.shape[-1])
            G = M.conj().T @ M
        else:
            M = np.moveaxis(a, bax, -1).reshape(-1, a.shape[bax])
            G = M.conj().T @ M
        e = float(np.linalg.norm(G - np.identity(G.shape[0])))
        require(e <= TOL * max(1, G.shape[0]), 'site tensor is not an isometry in the chosen direction', site=i, err=e)
        rec.metric('iso_err', e)
    if n0 > 1e-9 * tmag:
        e1 = abs(float(np.linalg.norm(v1)) - 1)
        require(e1 <= TOL, 'object does not have unit norm afterwards', err=e1)
        require(np.array_equal(obj.qD[0], q_first) and np.array_equal(obj.qD[-1], q_last),
                'outer (total) bond charges changed', before=[q_first.tolist(), q_last.tolist()],
                after=[np.asarray(obj.qD[0]).tolist(), np.asarray(obj.qD[-1]).tolist()])
    # bond bounds in sweep direction
    if mode == 'left':
        for i in range(L):
            require(D_new[i + 1] <= max(1, min(pd * D_new[i], D_old[i + 1])), 'bond larger than the neighbouring dimensions allow',
                    bond=i + 1, D_new=D_new, D_old=D_old)
    else:
        for i in reversed(range(L)):
            require(D_new[i] <= max(1, min(pd * D_new[i + 1], D_old[i])), 'bond larger than the neighbouring dimensions allow',
                    bond=i, D_new=D_new, D_old=D_old)
    rec.label(kind, 'mode_' + mode, 'style_' + desc['style'])
    if n0 == 0:
        rec.label('zero_state')
    if L == 1:
        rec.label('L=1')
    if d == 1:
        rec.label('d=1')
    if any(a < b for a, b in zip(D_new, D_old)):
        rec.label('bond_reduced')
    if any(D_old[i + 1] > pd * D_old[i] for i in range(L)):
        rec.label('overcomplete_bond')
    if all(q == 0 for q in desc['qd']):
        rec.label('all_zero_charges')
    if any(list(q) != sorted(q) for q in desc['qD']):
        rec.label('unsorted_bond_charges')
    rec.nontrivial = bool(n0 > 1e-9 * tmag and L >= 2 and max(D_old) >= 2)
    def again(what):
        """The object as it stands is the new 'original': factor, dense form, isometries and unit norm judged once more."""
        ve = np.asarray(to_dense([np.asarray(a, dtype=complex) for a in obj.A]))
        ne = float(np.linalg.norm(ve))
        nrm_e = float(np.real(obj.orthonormalize(mode=mode)))
        require(abs(nrm_e - ne) <= TOL * max(ne, 1e-300), 'orthonormalize ' + what + ' returns a wrong factor (stale or assumed canonical form?)', nrm=nrm_e, norm=ne)
        vf = np.asarray(to_dense([np.asarray(a, dtype=complex) for a in obj.A]))
        require(np.linalg.norm(nrm_e * vf - ve) <= TOL * max(ne, 1e-300), 'orthonormalize ' + what + ' changes the represented object')
        require(abs(float(np.linalg.norm(vf)) - 1) <= TOL, 'object does not have unit norm after orthonormalize ' + what, err=abs(float(np.linalg.norm(vf)) - 1))
        for i, a in enumerate(obj.A):
            M = a.reshape(-1, a.shape[-1]) if mode == 'left' else np.moveaxis(a, bax, -1).reshape(-1, a.shape[bax])
            G = M.conj().T @ M
            e = float(np.linalg.norm(G - np.identity(G.shape[0])))
            require(e <= TOL * max(1, G.shape[0]), 'site tensor is not an isometry after orthonormalize ' + what, site=i, err=e)
        return vf

    # a user-style edit of a site tensor after the first call, then the same call again: the object must be treated like
    # any other (no stale "already canonical" knowledge); judged against the dense form right before the second call
    if n0 > 1e-9 * tmag and np.issubdtype(obj.A[0].dtype, np.inexact):
        k = desc['seed'] % L
        if desc['seed'] % 2:
            obj.A[k] = 2.5 * obj.A[k]
        else:
            obj.A[k] = np.array(obj.A[k], dtype=complex); obj.A[k] *= (0.5 - 1.5j)
        v1 = again('after a tensor edit')
        # nearly canonical input: every tensor is an isometry up to a relative deviation far above rounding but small
        # (1e-9 .. 5e-6); the factor must still be the norm to rounding accuracy and the result exactly canonical
        eps = [2e-6, -3e-7, 1e-9, 5e-6][(desc['seed'] // 2) % 4]
        if (desc['seed'] // 8) % 2:
            obj.A[k] = (1 + eps) * obj.A[k]
        else:
            obj.A = [(1 + eps) * a for a in obj.A]
        v1 = again('of a nearly canonical object')
        rec.label('nearly_canonical_input')
    # second application is idempotent up to rounding: factor 1, same dense form
    if n0 > 1e-9 * tmag:
        nrm2 = float(np.real(obj.orthonormalize(mode=mode)))
        require(abs(nrm2 - 1) <= TOL, 'orthonormalizing a normalized object does not return 1', nrm2=nrm2)
        v2 = np.asarray(to_dense([np.asarray(a, dtype=complex) for a in obj.A]))
        require(np.linalg.norm(v2 - v1) <= TOL, 're-orthonormalization changed the dense form')


def _pow2_gauge(obj, bax, seed):
    """diag(2^k), |k| <= 60, inserted on an interior bond together with its inverse: the represented object is unchanged bit for
    bit (powers of two), but the channels of that bond now differ in scale by up to 2^120."""
    L = len(obj.A)
    rng = np.random.default_rng(seed + 11)
    b = 1 + int(rng.integers(0, L - 1))
    x = 2.0 ** rng.integers(-60, 61, size=obj.A[b].shape[bax])
    sl_r = (None,) * (obj.A[b - 1].ndim - 1) + (slice(None),)
    sl_l = (None,) * bax + (slice(None),) + (None,) * (obj.A[b].ndim - bax - 1)
    obj.A[b - 1] = obj.A[b - 1] * x[sl_r]
    obj.A[b] = obj.A[b] / x[sl_l]


def _tmag(obj):
    m = 1.0
    for a in obj.A:
        m *= float(np.linalg.norm(np.asarray(a, dtype=complex)))
    return m


def _to_single(obj, which):
    """The same object with its tensors stored in single precision (complex64 / float32): a legal storage type; the library then works
    in single precision, so the clauses are judged to 2e-4 instead of 1e-11 (a dropped imaginary part or a wrong factor is O(1))."""
    if which == 'complex64':
        obj.A = [np.asarray(a, dtype=complex).astype(np.complex64) for a in obj.A]
    else:
        obj.A = [np.asarray(a).real.astype(np.float32) for a in obj.A]


def check_mps(case, rec):
    if case.get('single') and case['obj']['style'] != 'intdtype':
        psi = build_mps(case['obj'])
        _to_single(psi, case['single'])
        rec.label('storage_' + case['single'])
        _common(psi, 'mps', case['mode'], case['obj'], rec, tol=TOL_SINGLE)
        return
    if case.get('shared') and len(case['obj']['qD']) - 1 >= 4 and case['obj']['style'] != 'intdtype':
        # translation-invariant bulk: all interior bonds carry the same charge list and ONE ndarray object sits at every bulk site
        # (a legal, user-assembled MPS); the call must not write into tensors it does not own
        desc = dict(case['obj'])
        qD = desc['qD']; Ls = len(qD) - 1
        desc['qD'] = [qD[0]] + [qD[1]] * (Ls - 1) + [qD[Ls]]
        psi = build_mps(desc)
        bulk = psi.A[1]
        for i in range(1, Ls - 1):
            psi.A[i] = bulk
        rec.label('shared_bulk_tensor')
        _common(psi, 'mps', case['mode'], desc, rec)
        return
    psi = build_mps(case['obj'])
    if case.get('gauge') and len(psi.A) >= 2 and np.issubdtype(psi.A[0].dtype, np.inexact):
        tm = _tmag(psi)
        _pow2_gauge(psi, 1, case['obj']['seed'])
        rec.label('bond_gauge_rescaled')
        _common(psi, 'mps', case['mode'], case['obj'], rec, tmag_override=tm)
        return
    _common(psi, 'mps', case['mode'], case['obj'], rec)


def check_mpo(case, rec):
    if case.get('single') and case['obj']['style'] != 'intdtype':
        op = build_mpo(case['obj'])
        _to_single(op, case['single'])
        rec.label('storage_' + case['single'])
        _common(op, 'mpo', case['mode'], case['obj'], rec, tol=TOL_SINGLE)
        return
    if case.get('shared') and len(case['obj']['qD']) - 1 >= 4 and case['obj']['style'] != 'intdtype':
        desc = dict(case['obj'])
        qD = desc['qD']; Ls = len(qD) - 1
        desc['qD'] = [qD[0]] + [qD[1]] * (Ls - 1) + [qD[Ls]]
        op = build_mpo(desc)
        bulk = op.A[1]
        for i in range(1, Ls - 1):
            op.A[i] = bulk
        rec.label('shared_bulk_tensor')
        _common(op, 'mpo', case['mode'], desc, rec)
        return
    op = build_mpo(case['obj'])
    if case.get('gauge') and len(op.A) >= 2 and np.issubdtype(op.A[0].dtype, np.inexact):
        tm = _tmag(op)
        _pow2_gauge(op, 2, case['obj']['seed'])
        rec.label('bond_gauge_rescaled')
        _common(op, 'mpo', case['mode'], case['obj'], rec, tmag_override=tm)
        return
    _common(op, 'mpo', case['mode'], case['obj'], rec)


def check_fill(case, rec):
    """Objects made by the public constructors with a scalar fill value (int, float, complex) or 'random'."""
    qd = case['obj']['qd']; qD = case['obj']['qD']
    fill = case['fill']
    if fill == 'random':
        kw = dict(fill='random', rng=np.random.default_rng(case['obj']['seed']))
    elif isinstance(fill, dict):
        kw = dict(fill=complex(fill['re'], fill['im']))
    else:
        kw = dict(fill=fill)
    if case['cls'] == 'mps':
        obj = ptn.MPS(qd, qD, **kw)
    else:
        obj = ptn.MPO(qd, qD, **kw)
    desc = dict(case['obj']); desc['style'] = 'fill_' + (type(fill).__name__ if not isinstance(fill, dict) else 'complex')
    _common(obj, case['cls'], case['mode'], desc, rec)


@st.composite
def gen_mps(draw, tier):
    Lmax = 6 if tier == 'quick' else 8
    obj = draw(mps_desc(Lmin=1, Lmax=Lmax, Dmax=5 if tier == 'quick' else 8))
    sc = draw(st.sampled_from([None, None, None, 1e-3, 2e3]))
    if sc is not None and obj['style'] != 'intdtype':
        obj['scale'] = sc
    return {'obj': obj, 'mode': draw(st.sampled_from(['left', 'right'])), 'gauge': draw(st.sampled_from([False, False, False, True])), 'shared': draw(st.sampled_from([False, False, True])), 'single': draw(st.sampled_from([None, None, None, None, 'complex64', 'float32']))}


@st.composite
def gen_mpo(draw, tier):
    return {'obj': draw(mpo_desc(Lmin=1, Lmax=4 if tier == 'quick' else 5, Dmax=4 if tier == 'quick' else 6)),
            'mode': draw(st.sampled_from(['left', 'right'])), 'gauge': draw(st.sampled_from([False, False, False, True])), 'shared': draw(st.sampled_from([False, False, True])), 'single': draw(st.sampled_from([None, None, None, None, 'complex64', 'float32']))}


@st.composite
def gen_fill(draw, tier):
    cls = draw(st.sampled_from(['mps', 'mpo']))
    obj = draw(mps_desc(Lmax=5, Dmax=4)) if cls == 'mps' else draw(mpo_desc(Lmax=3, Dmax=3))
    fill = draw(st.sampled_from([1, 2, -3, 1.0, 0.5, -2.5, {'re': 0.5, 'im': -1.0}, 'random', 0, 0.0]))
    return {'cls': cls, 'obj': obj, 'fill': fill, 'mode': draw(st.sampled_from(['left', 'right']))}


PARTS = [
    Part('mps', check_mps, strategy=lambda tier: gen_mps(tier), n={'quick': 400, 'thorough': 6000}, workers={'quick': 4, 'thorough': 16}),
    Part('mpo', check_mpo, strategy=lambda tier: gen_mpo(tier), n={'quick': 250, 'thorough': 4000}, workers={'quick': 4, 'thorough': 16}),
    Part('constructor_fill', check_fill, strategy=lambda tier: gen_fill(tier), n={'quick': 150, 'thorough': 2000},
         workers={'quick': 2, 'thorough': 16}, doc='objects built by MPS(...)/MPO(...) with scalar fill (int, float, complex), or random'),
]
