"""
Run-time observer for `pytenet.krylov.lanczos_iteration` (no source change: the module attribute is wrapped
while a check runs). It recognises the call-site signature of known finding F5: the iteration returned more
vectors than the Krylov space of (A, v) has dimensions, i.e. it continued past an undetected breakdown - or, the milder
form of the same weakness, the vectors it returned are not orthonormal to 1e-9 (no re-orthogonalisation).

The Krylov dimension is determined independently by an Arnoldi process with two passes of full
re-orthogonalisation; a residual below 1e-9 x (largest ||A v|| seen) counts as exhaustion.
"""
import numpy as np
import pytenet.krylov as _K


def krylov_dimension(Afunc, v, limit):
    v = np.asarray(v, dtype=complex)
    nv = np.linalg.norm(v)
    if nv == 0:
        return 0
    V = [v / nv]
    scale = 0.0
    for j in range(limit - 1):
        w = np.asarray(Afunc(V[j].copy()), dtype=complex).copy()
        scale = max(scale, float(np.linalg.norm(w)))
        for _ in range(2):
            for u in V:
                w = w - np.vdot(u, w) * u
        r = float(np.linalg.norm(w))
        if r <= 1e-9 * max(scale, 1e-300):
            return j + 1
        V.append(w / r)
    return limit


class LanczosMonitor:
    def __init__(self):
        self.calls = 0
        self.past_breakdown = 0
        self.details = []

    def __enter__(self):
        self._orig = _K.lanczos_iteration

        def wrapped(Afunc, vstart, numiter):
            out = self._orig(Afunc, vstart, numiter)
            self.calls += 1
            returned = len(out[0])
            if returned >= 2:
                k = krylov_dimension(Afunc, np.array(vstart, copy=True), returned)
                # second form of the same signature: the returned "Lanczos vectors" are not orthonormal (orthogonality lost without
                # re-orthogonalisation; beyond the Krylov dimension it is lost completely, close to it partially)
                V = np.asarray(out[2])
                orth = float(np.max(np.abs(V.conj().T @ V - np.identity(V.shape[1])))) if V.ndim == 2 and V.shape[1] == returned else 0.0
                if returned > k or orth > 1e-9:
                    self.past_breakdown += 1
                    if len(self.details) < 3:
                        self.details.append({'n': int(len(vstart)), 'numiter': int(numiter), 'returned': int(returned), 'krylov_dim': int(k), 'orth_err': orth})
            return out
        _K.lanczos_iteration = wrapped
        return self

    def __exit__(self, *exc):
        _K.lanczos_iteration = self._orig
        return False
