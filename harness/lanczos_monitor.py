"""
Run-time observer for `pytenet.krylov.lanczos_iteration` (no source change: the module attribute is wrapped
while a check runs). It recognises the call-site signature of known finding F5: the iteration returned more
vectors than the Krylov space of (A, v) has dimensions, i.e. it continued past an undetected breakdown - or, the milder
form of the same weakness, the vectors it returned are not orthonormal to 1e-9 (no re-orthogonalisation).

The Krylov dimension is determined independently by an Arnoldi process with two passes of full
re-orthogonalisation; a residual below 1e-9 x (largest ||A v|| seen) counts as exhaustion.
"""
import numpy as np
import pytenet.krylov as _K


def krylov_dimension(Afunc, v, limit):
    v = np.asarray(v, dtype=complex)
    nv = np.linalg.norm(v)
    if nv == 0:
        return 0
    V = [v / nv]
    scale = 0.0
    for j in range(limit - 1):
        w = np.asarray(Afunc(V[j].copy()), dtype=complex).copy()
        scale = max(scale, float(np.linalg.norm(w)))
        for _ in range(2):
            for u in V:
                w = w - np.vdot(u, w) * u
        r = float(np.linalg.norm(w))
        if r <= 1e-9 * max(scale, 1e-300):
            return j + 1
        V.append(w / r)
    return limit


def reference_lanczos(Afunc, vstart, numiter):
    """The plain Lanczos recurrence with the absolute breakdown test `beta < 100 n eps`, i.e. the algorithm known finding F5 is about,
    written out independently. A failure is attributed to F5 only if the library's iteration still IS this algorithm (same number of
    returned vectors, same coefficients and vectors up to the exhaustion point); a change that alters the iteration itself (dtype of
    the basis, another breakdown rule, padded outputs, ...) produces different output and gets no attribution."""
    v = np.asarray(vstart)
    nrm = np.linalg.norm(v)
    if not nrm > 0:
        return None
    v = v / nrm
    n = len(v)
    alpha = np.zeros(numiter); beta = np.zeros(max(numiter - 1, 0))
    V = np.zeros((numiter, n), dtype=complex)
    V[0] = v
    for j in range(numiter - 1):
        w = np.array(Afunc(V[j].copy()), dtype=complex)
        alpha[j] = np.vdot(w, V[j]).real
        w = w - (alpha[j] * V[j] + (beta[j - 1] * V[j - 1] if j > 0 else 0))
        beta[j] = np.linalg.norm(w)
        if beta[j] < 100 * n * np.finfo(float).eps:
            return alpha[:j + 1], beta[:j], V[:j + 1].T
        V[j + 1] = w / beta[j]
    w = np.array(Afunc(V[numiter - 1].copy()), dtype=complex)
    alpha[numiter - 1] = np.vdot(w, V[numiter - 1]).real
    return alpha, beta, V.T


class LanczosMonitor:
    def __init__(self):
        self.calls = 0
        self.signature = 0
        self.deviates = 0
        self.details = []

    @property
    def past_breakdown(self):
        """Number of calls that showed the signature of F5 - zero as soon as any call of the run deviated from the reference algorithm."""
        return 0 if self.deviates else self.signature

    def __enter__(self):
        self._orig = _K.lanczos_iteration

        def wrapped(Afunc, vstart, numiter):
            out = self._orig(Afunc, vstart, numiter)
            self.calls += 1
            returned = len(out[0])
            if returned >= 2:
                k = krylov_dimension(Afunc, np.array(vstart, copy=True), returned)
                # second form of the same signature: the returned "Lanczos vectors" are not orthonormal (orthogonality lost without
                # re-orthogonalisation; beyond the Krylov dimension it is lost completely, close to it partially)
                V = np.asarray(out[2])
                orth = float(np.max(np.abs(V.conj().T @ V - np.identity(V.shape[1])))) if V.ndim == 2 and V.shape[1] == returned else 0.0
                if returned > k or orth > 1e-9:
                    self.signature += 1
                    if len(self.details) < 3:
                        self.details.append({'n': int(len(vstart)), 'numiter': int(numiter), 'returned': int(returned), 'krylov_dim': int(k), 'orth_err': orth})
            # is the library's iteration still the algorithm the finding is about?
            try:
                ref = reference_lanczos(Afunc, np.array(vstart, copy=True), numiter)
            except Exception:
                ref = None
            same = ref is not None and len(ref[0]) == returned and len(out[1]) == len(ref[1]) and np.asarray(out[2]).shape == ref[2].shape
            if same and returned >= 1:
                r = max(1, min(returned, krylov_dimension(Afunc, np.array(vstart, copy=True), returned) if returned >= 2 else 1))
                sc = max(1.0, float(np.max(np.abs(ref[0][:r]))), float(np.max(np.abs(ref[1][:max(r - 1, 0)]))) if r >= 2 else 0.0)
                same = (np.allclose(np.asarray(out[0])[:r], ref[0][:r], rtol=1e-6, atol=1e-8 * sc)
                        and np.allclose(np.asarray(out[1])[:max(r - 1, 0)], ref[1][:max(r - 1, 0)], rtol=1e-6, atol=1e-8 * sc)
                        and np.allclose(np.asarray(out[2])[:, :r], ref[2][:, :r], rtol=1e-6, atol=1e-7))
            if not same:
                self.deviates += 1
            return out
        _K.lanczos_iteration = wrapped
        return self

    def __exit__(self, *exc):
        _K.lanczos_iteration = self._orig
        return False
