"""
Matrices and start vectors with a Krylov dimension known by construction (C14, C15).

descriptor: {kind, mult: [multiplicity per distinct eigenvalue], support: [0/1 per distinct eigenvalue],
             seed, scale, m, ...}
kind: 'herm_real' | 'herm_complex' | 'general' | 'general_jordan'
"""
import numpy as np
from hypothesis import strategies as st


def build(desc):
    """Returns (A, v, k, reach) with k the Krylov dimension of (A, v) and reach the eigenvalues seen by v."""
    rng = np.random.default_rng(desc['seed'])
    if desc['kind'] in ('herm_kernel', 'general_shift'):
        return _build_exact(desc, rng)
    mult = desc['mult']; support = desc['support']
    nd = len(mult)
    n = int(sum(mult))
    scale = float(desc['scale'])
    kind = desc['kind']
    # distinct, well separated eigenvalues (gap >= 0.25 before scaling)
    gaps = 0.25 + rng.random(nd) * 0.5
    lam = np.cumsum(gaps)
    lam = lam - lam.mean() + rng.normal() * 0.3
    lam = lam[rng.permutation(nd)]
    if kind in ('general', 'general_jordan'):
        lam = lam + 1j * (rng.random(nd) - 0.5) * 2
    lam = lam * scale
    eig = np.repeat(lam, mult)
    owner = np.repeat(np.arange(nd), mult)
    # coefficients of the start vector in the eigenbasis: modulus in [0.3, 1] on the support
    cplx = kind != 'herm_real'
    coef = np.zeros(n, dtype=complex)
    for j in range(nd):
        if support[j]:
            idx = np.where(owner == j)[0]
            c = (0.3 + 0.7 * rng.random(len(idx)))
            if cplx:
                c = c * np.exp(2j * np.pi * rng.random(len(idx)))
            else:
                c = c * rng.choice([-1.0, 1.0], size=len(idx))
            # use a random subset (at least one) of the eigenspace directions
            keep = rng.random(len(idx)) < 0.7
            keep[rng.integers(0, len(idx))] = True
            coef[idx] = np.where(keep, c, 0)
    k = int(sum(1 for j in range(nd) if support[j]))
    reach = np.array([lam[j] for j in range(nd) if support[j]])
    if kind == 'herm_real':
        X = rng.normal(size=(n, n))
        U, _ = np.linalg.qr(X)
        A = (U * eig.real) @ U.T
        A = 0.5 * (A + A.T)
        v = U @ coef.real
    elif kind == 'herm_complex':
        X = rng.normal(size=(n, n)) + 1j * rng.normal(size=(n, n))
        U, _ = np.linalg.qr(X)
        A = (U * eig.real) @ U.conj().T
        A = 0.5 * (A + A.conj().T)
        v = U @ coef
        if desc.get('real_start'):
            # real-dtype start vector for a complex Hermitian map: generic overlap with every eigenspace
            v = rng.normal(size=n)
            proj = np.array([np.linalg.norm(U[:, owner == j].conj().T @ v) for j in range(nd)])
            k = int(np.sum(proj > 1e-12))
            reach = np.array([lam[j] for j in range(nd) if proj[j] > 1e-12])
            if proj.min() < 0.05 * proj.max():
                k = -1     # Krylov dimension numerically fuzzy: callers skip the case
    else:
        # well conditioned similarity: S = U1 diag(1..c) U2, cond <= 10
        X1 = rng.normal(size=(n, n)) + 1j * rng.normal(size=(n, n))
        X2 = rng.normal(size=(n, n)) + 1j * rng.normal(size=(n, n))
        U1, _ = np.linalg.qr(X1); U2, _ = np.linalg.qr(X2)
        sv = 1 + 9 * rng.random(n) * float(desc.get('cond', 0.3))
        S = (U1 * sv) @ U2
        J = np.diag(eig).astype(complex)
        if kind == 'general_jordan':
            # turn each supported eigenvalue of multiplicity >= 2 into one Jordan block of size 2
            # (plus ordinary eigenvectors); the start vector touches the generalised vector -> +1 dimension
            for j in range(nd):
                idx = np.where(owner == j)[0]
                if len(idx) >= 2 and support[j]:
                    J[idx[0], idx[1]] = scale
                    coef[idx[1]] = 0.5 + 0.5 * rng.random()
                    k += 1
        A = S @ J @ np.linalg.inv(S)
        v = S @ coef
    return A, v, k, reach


def _build_exact(desc, rng):
    """
    Maps whose Krylov chain ends *exactly* (A v_j == 0 bit for bit), as for ladder operators, nilpotent blocks or a
    start vector in the kernel: direct sums without any rotation, so no rounding hides the exact zero.
      herm_kernel  : A = B (+) 0  with Hermitian B, start vector = a basis vector of the zero block  -> k = 1
      general_shift: A = c * shift_p (+) G, start vector = e_0 of the shift block                     -> k = p
    """
    n = int(sum(desc['mult']))
    scale = float(desc['scale'])
    if desc['kind'] == 'herm_kernel':
        nz = max(1, n // 3)
        nb = n - nz
        A = np.zeros((n, n), dtype=complex)
        if nb > 0:
            X = rng.normal(size=(nb, nb)) + 1j * rng.normal(size=(nb, nb))
            A[:nb, :nb] = scale * (X + X.conj().T) / 2
        v = np.zeros(n, dtype=complex)
        v[nb + int(rng.integers(0, nz))] = 1.7 - 0.3j
        return A, v, 1, np.array([0.0])
    p = max(1, min(n, 1 + int(sum(desc['support']))))
    A = np.zeros((n, n), dtype=complex)
    for i in range(p - 1):
        A[i + 1, i] = scale
    if n > p:
        A[p:, p:] = scale * (rng.normal(size=(n - p, n - p)) + 1j * rng.normal(size=(n - p, n - p)))
    v = np.zeros(n, dtype=complex)
    v[0] = 2.0
    return A, v, p, np.array([0.0])


@st.composite
def krylov_desc(draw, nmax=14, kinds=('herm_real', 'herm_complex'), extra_m=3):
    nd = draw(st.sampled_from(list(range(1, min(nmax, 10) + 1))))
    mults = []
    total = 0
    for _ in range(nd):
        mlt = draw(st.sampled_from([1, 1, 1, 2, 3]))
        if total + mlt > nmax:
            mlt = 1
        if total + mlt > nmax:
            break
        mults.append(mlt); total += mlt
    nd = len(mults)
    mode = draw(st.sampled_from(['full', 'full', 'subset', 'single']))
    if mode == 'full':
        support = [1] * nd
    elif mode == 'single':
        support = [0] * nd
        support[draw(st.integers(0, nd - 1))] = 1
    else:
        support = draw(st.lists(st.integers(0, 1), min_size=nd, max_size=nd))
        if not any(support):
            support[0] = 1
    n = sum(mults)
    kind = draw(st.sampled_from(list(kinds)))
    real_start = bool(kind == 'herm_complex' and draw(st.sampled_from(range(4))) == 3)
    # a real start vector for a complex Hermitian map overlaps every eigenspace: k = number of distinct eigenvalues
    kd = nd if real_start else sum(support)
    if kind == 'herm_kernel':
        kd = 1
    elif kind == 'general_shift':
        kd = max(1, min(n, 1 + sum(support)))
    rel = draw(st.sampled_from(['below', 'below', 'at', 'above', 'any']))
    if rel == 'below' and kd >= 2:
        m = draw(st.sampled_from(list(range(1, kd))))
    elif rel == 'at':
        m = kd
    elif rel == 'above':
        m = draw(st.sampled_from(list(range(kd + 1, n + extra_m + 1))))
    else:
        m = draw(st.integers(1, n + extra_m))
    return {'kind': kind, 'real_start': real_start, 'mult': mults, 'support': support,
            'seed': draw(st.integers(0, 2**31 - 1)), 'scale': draw(st.sampled_from([0.1, 1.0, 1.0, 1.0, 5.0])),
            'm': m, 'cond': draw(st.sampled_from([0.0, 0.3, 1.0]))}


def afunc_of(A, form):
    """The linear map x -> A x in three forms a caller may hand over: a function returning a fresh array, a function that writes into
    one preallocated buffer and returns that same buffer on every call (the library has to copy what it wants to keep), or a function
    returning a strided (non-contiguous, writable) view.
    (A read-only return value is NOT among the forms: the iterations update the returned array in place, every caller in the library
    returns a fresh writable array, and nothing documents more - a first version of this generator included it and raised a false alarm
    within one run.)"""
    if form % 3 == 2:
        # a strided (non-contiguous) view, e.g. the sub-lattice part of a larger result
        def g(x):
            y = np.zeros(2 * A.shape[0], dtype=complex)
            y[::2] = A @ x
            return y[::2]
        return g
    if form % 3 == 1:
        buf = np.zeros(A.shape[0], dtype=complex)

        def f(x):
            buf[:] = A @ x
            return buf
        return f
    return lambda x: A @ x
