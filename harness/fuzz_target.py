"""
Coverage-guided campaign (atheris / libFuzzer) over the same strategies and predicates as the Hypothesis parts.

    fuzz_target.py <Cxx> <part> <runs> <seed> <outdir>

libFuzzer's byte string is decoded into a structured case by Hypothesis' `fuzz_one_input` for the part's
strategy (so the fuzzer reaches the property logic instead of dying in input validation), pytenet is
instrumented for coverage, and the semantic oracle (the part's `check`) runs inside the target.
Statistics are written to <outdir>/stats.json every 500 executions (atexit does not run under libFuzzer);
on a violation the decoded case is written to <outdir>/failure.json and the process exits with status 77.
"""
import os
import sys
import json
import time
import warnings

warnings.simplefilter('ignore')
import atheris

with atheris.instrument_imports(include=['pytenet']):
    import pytenet  # noqa

import core
from core import Rec, Stats, canon


def main():
    prop_id, part_name, runs, seed, outdir = sys.argv[1], sys.argv[2], int(sys.argv[3]), int(sys.argv[4]), sys.argv[5]
    os.makedirs(outdir, exist_ok=True)
    corpus = os.path.join(outdir, 'corpus')
    os.makedirs(corpus, exist_ok=True)
    # seed corpus: a few random byte strings long enough to decode into complete cases of large strategies (histories);
    # libFuzzer also keeps the empty input
    import numpy as _np
    _rng = _np.random.default_rng(seed)
    for _i, _n in enumerate((64, 512, 2048, 4096, 4096)):
        with open(os.path.join(corpus, f'seed{_i}'), 'wb') as _f:
            _f.write(_rng.integers(0, 256, size=_n, dtype=_np.uint8).tobytes())
    mod = core._load(prop_id)
    part = next(p for p in mod.PARTS if p.name == part_name)
    from hypothesis import given, settings, HealthCheck
    stats = Stats()
    t0 = time.time()
    state = {'n': 0, 'invalid': 0}

    def dump():
        d = stats.as_dict()
        d['execs'] = state['n']
        d['wall'] = time.time() - t0
        with open(os.path.join(outdir, 'stats.json.tmp'), 'w') as f:
            json.dump(d, f, default=core._jsonable)
        os.replace(os.path.join(outdir, 'stats.json.tmp'), os.path.join(outdir, 'stats.json'))

    @settings(database=None, deadline=None, suppress_health_check=list(HealthCheck))
    @given(part.strategy('quick'))
    def test(case):
        rec = Rec()
        try:
            part.check(case, rec)
        except BaseException as e:  # noqa
            if isinstance(e, (KeyboardInterrupt, SystemExit)):
                raise
            kind = core._classify(e, e.__traceback__)
            d = core._describe(e, e.__traceback__)
            d['case'] = json.loads(canon(getattr(e, 'case_override', None) or case))
            d['kind'] = kind
            with open(os.path.join(outdir, 'failure.json'), 'w') as f:
                json.dump(d, f, default=core._jsonable)
            dump()
            os._exit(77)
        stats.add(case, rec)

    fuzz_one = test.hypothesis.fuzz_one_input

    def target(data):
        state['n'] += 1
        fuzz_one(data)
        if state['n'] % 500 == 0:
            dump()

    argv = [sys.argv[0], f'-runs={runs}', f'-seed={seed if seed > 0 else 1}', '-max_len=8192', '-print_final_stats=0', '-verbosity=0', corpus]
    atheris.Setup(argv, target)
    dump()
    atheris.Fuzz()


if __name__ == '__main__':
    main()
