"""
Runner for the property checks of /verif (see DESIGN.md section 2).

    core.py <Cxx> quick|thorough
    core.py <Cxx> --replay <file>

A property module (harness/props/cXX.py) exposes

    ID      = "C11"
    RULE    = "<how cases are generated and what makes one non-trivial>"
    ASSUME  = ["<assumption>", ...]
    PARTS   = [Part(...), ...]

and every Part has a `check(case, rec)` that is a pure function of the JSON-serialisable
case descriptor (bulk numbers are derived from integer seeds stored in the descriptor), so a
failing case replays without Hypothesis.

Exit codes: 0 = held on everything explored, 1 = violation (a `VIOLATION ...` line is printed),
2 = harness error (never a VIOLATION line).
"""
import os
import sys
import json
import time
import zlib
import hashlib
import importlib
import traceback
import warnings
import multiprocessing

HERE = os.path.dirname(os.path.abspath(__file__))
VERIF = os.path.dirname(HERE)
PYTENET_PATH = os.path.abspath(os.environ.get('PYTENET_PATH', '/repo'))

# --------------------------------------------------------------------------------------
# exceptions


class Violation(Exception):
    """The oracle decided that the property is violated on this case."""
    def __init__(self, msg, case=None):
        super().__init__(msg)
        # optional narrower case descriptor (same part) that reproduces the failure on its own
        self.case_override = case


class HarnessError(Exception):
    """The harness itself is broken (generator post-condition, bad descriptor...)."""


def require(cond, msg, **info):
    """Oracle clause: raise Violation(msg) unless cond."""
    if not cond:
        if info:
            msg = msg + ' ' + json.dumps(info, default=_jsonable, sort_keys=True)
        raise Violation(msg)


def harness_require(cond, msg):
    if not cond:
        raise HarnessError(msg)


# --------------------------------------------------------------------------------------
# case accounting


def _jsonable(o):
    import numpy as np
    if isinstance(o, np.integer):
        return int(o)
    if isinstance(o, np.floating):
        return float(o)
    if isinstance(o, np.bool_):
        return bool(o)
    if isinstance(o, complex) or isinstance(o, np.complexfloating):
        return {'re': float(o.real), 'im': float(o.imag)}
    if isinstance(o, np.ndarray):
        return o.tolist()
    if isinstance(o, (set, frozenset)):
        return sorted(o)
    if isinstance(o, tuple):
        return list(o)
    raise TypeError(f'not JSON serialisable: {type(o)}')


def canon(case):
    return json.dumps(case, sort_keys=True, default=_jsonable, separators=(',', ':'))


def case_hash(case):
    return int.from_bytes(hashlib.blake2b(canon(case).encode(), digest_size=8).digest(), 'big')


class Rec:
    """Per-case recorder handed to check(): labels, non-triviality, exclusions."""
    __slots__ = ('labels', 'nontrivial', 'excluded_known', 'unjudged', 'metrics', 'bulk_evals', 'bulk_nontrivial', 'bulk_labels')

    def __init__(self):
        self.labels = []
        self.nontrivial = False
        self.excluded_known = 0
        self.unjudged = []
        self.metrics = {}
        self.bulk_evals = 0
        self.bulk_nontrivial = 0
        self.bulk_labels = {}

    def bulk(self, evaluations, nontrivial, labels=None):
        """
        The case is a chunk of an exhaustive enumeration: `evaluations` distinct inputs were judged,
        `nontrivial` of them non-trivial (distinct by construction, so no hashing is needed).
        """
        self.bulk_evals += int(evaluations)
        self.bulk_nontrivial += int(nontrivial)
        for k, v in (labels or {}).items():
            self.bulk_labels[k] = self.bulk_labels.get(k, 0) + int(v)

    def label(self, *names):
        for n in names:
            if n is not None:
                self.labels.append(str(n))

    def skip(self, why):
        """A clause (or the case) could not be judged soundly: counted, never a violation."""
        self.unjudged.append(str(why))

    def metric(self, name, value):
        """Track the maximum of a numeric quantity (e.g. worst observed error)."""
        v = float(value)
        if name not in self.metrics or v > self.metrics[name]:
            self.metrics[name] = v


class Part:
    """
    One generated-input search of a property.

    kind 'hyp':  strategy(tier) -> Hypothesis strategy of case descriptors; n[tier] cases per worker
    kind 'enum': enum(tier) -> iterable of case descriptors (sharded over workers by index)
    """
    def __init__(self, name, check, strategy=None, enum=None, n=None, workers=None,
                 exhaustive=False, shrink=True, doc='', fuzz_of=None, runs=None):
        self.name = name
        self.check = check
        self.strategy = strategy
        self.enum = enum
        self.n = n or {'quick': 200, 'thorough': 2000}
        self.workers = workers or {'quick': 4, 'thorough': 16}
        self.exhaustive = exhaustive
        self.shrink = shrink
        self.doc = doc
        self.kind = 'hyp' if strategy is not None else 'enum'
        # kind 'fuzz': atheris / libFuzzer campaign over the strategy and check of part `fuzz_of`
        self.fuzz_of = fuzz_of
        self.runs = runs or {'quick': 0, 'thorough': 0}
        if fuzz_of is not None:
            self.kind = 'fuzz'


# --------------------------------------------------------------------------------------
# known findings

_KF = None


def known_findings():
    global _KF
    if _KF is None:
        path = os.path.join(VERIF, 'known_findings.json')
        with open(path) as f:
            _KF = json.load(f)['findings']
    return _KF


def known_listed(prop, key):
    """
    True iff (prop, key) is a listed *known* (unrepaired) finding and suppression is enabled.
    `fixed` entries never suppress anything.
    """
    if os.environ.get('VERIF_NO_SUPPRESS') == '1':
        return False
    for f in known_findings():
        if f['property'] == prop and f['kind'] == 'known' and f['key'] == key:
            return True
    return False


# --------------------------------------------------------------------------------------
# failure classification


def _classify(exc, tb):
    """
    'violation' if the oracle said so or pytenet raised on a domain input,
    'harness' otherwise.
    """
    if isinstance(exc, HarnessError):
        return 'harness'
    if isinstance(exc, Violation):
        return 'violation'
    for fs in traceback.extract_tb(tb):
        fn = os.path.abspath(fs.filename)
        if fn.startswith(os.path.join(PYTENET_PATH, 'pytenet') + os.sep):
            return 'violation'
    return 'harness'


def _describe(exc, tb):
    frames = traceback.extract_tb(tb)
    where = ''
    for fs in reversed(frames):
        fn = os.path.abspath(fs.filename)
        if fn == os.path.join(HERE, 'core.py'):
            continue
        if fn.startswith(PYTENET_PATH + os.sep) or fn.startswith(VERIF + os.sep):
            where = f'{os.path.relpath(fn, "/")}:{fs.lineno} in {fs.name}'
            break
    return {'type': type(exc).__name__, 'message': str(exc)[:2000], 'where': where,
            'traceback': ''.join(traceback.format_exception(type(exc), exc, tb))[-6000:]}


# --------------------------------------------------------------------------------------
# worker


class Stats:
    def __init__(self):
        self.evaluations = 0
        self.nontrivial = set()
        self.labels = {}
        self.samples = []
        self.excluded_known = 0
        self.unjudged = {}
        self.metrics = {}
        self.failure = None
        self.harness_error = None
        self.bulk_nontrivial = 0

    def add(self, case, rec):
        if rec.bulk_evals:
            self.evaluations += rec.bulk_evals
            self.bulk_nontrivial += rec.bulk_nontrivial
            for k, v in rec.bulk_labels.items():
                self.labels[k] = self.labels.get(k, 0) + v
            if len(self.samples) < 2:
                self.samples.append(json.loads(canon(case)))
            return
        self.evaluations += 1
        for l in rec.labels:
            self.labels[l] = self.labels.get(l, 0) + 1
        for u in rec.unjudged:
            self.unjudged[u] = self.unjudged.get(u, 0) + 1
        self.excluded_known += rec.excluded_known
        for k, v in rec.metrics.items():
            if k not in self.metrics or v > self.metrics[k]:
                self.metrics[k] = v
        if rec.nontrivial:
            h = case_hash(case)
            if h not in self.nontrivial:
                self.nontrivial.add(h)
                n = len(self.nontrivial)
                # keep the 1st, 2nd and then exponentially spaced non-trivial cases as samples
                if n <= 2 or (n & (n - 1)) == 0:
                    if len(self.samples) < 8:
                        self.samples.append(json.loads(canon(case)))

    def as_dict(self):
        return {'evaluations': self.evaluations, 'nontrivial': sorted(self.nontrivial),
                'labels': self.labels, 'samples': self.samples,
                'excluded_known': self.excluded_known, 'unjudged': self.unjudged,
                'metrics': self.metrics, 'failure': self.failure, 'harness_error': self.harness_error,
                'bulk_nontrivial': self.bulk_nontrivial}


def _load(prop_id):
    sys.path.insert(0, HERE) if HERE not in sys.path else None
    return importlib.import_module(f'props.{prop_id.lower()}')


def _derive_seed(seed, part_name, shard):
    return (seed * 1000003 + zlib.crc32(part_name.encode()) * 31 + shard * 7919) % (2**31 - 1)


class CaseTimeout(BaseException):
    """Raised (through SIGALRM) when one case does not return; not an Exception, so that Hypothesis does not try to shrink it."""


def _case_limit(tier):
    """Seconds after which a single case counts as not terminating. Ordinary cases take milliseconds to a few seconds even on a
    loaded machine; the limit only exists so that a change which makes the library loop forever on a valid input ends the check
    with a report instead of hanging it."""
    return int(os.environ.get('VERIF_CASE_LIMIT', '600' if tier == 'quick' else '1800'))


def _evaluate(part, case, stats, limit=0):
    import signal
    rec = Rec()
    use_alarm = limit > 0 and hasattr(signal, 'SIGALRM')
    if use_alarm:
        def on_alarm(signum, frame):
            raise CaseTimeout()
        old = signal.signal(signal.SIGALRM, on_alarm)
        signal.alarm(limit)
    try:
        part.check(case, rec)
    finally:
        if use_alarm:
            signal.alarm(0)
            signal.signal(signal.SIGALRM, old)
    stats.add(case, rec)


_COVER = {'lines': set(), 'on': False}


def _cover_start():
    """Optional line-coverage recording of pytenet (VERIF_COVER=<dir>): which library lines do the checks execute at all?
    Used by tools/coverage_report.py to find code no check reaches; sys.monitoring fires once per line (DISABLE afterwards)."""
    d = os.environ.get('VERIF_COVER')
    if not d or _COVER['on'] or not hasattr(sys, 'monitoring'):
        return
    mon = sys.monitoring
    root = os.path.join(os.path.realpath(os.environ.get('PYTENET_PATH', '/repo')), 'pytenet') + os.sep

    def on_line(code, line):
        fn = code.co_filename
        if fn.startswith(root) or os.path.realpath(fn).startswith(root):
            _COVER['lines'].add((os.path.basename(fn), line))
        return mon.DISABLE
    try:
        mon.use_tool_id(mon.COVERAGE_ID, 'verif')
    except ValueError:
        pass
    mon.register_callback(mon.COVERAGE_ID, mon.events.LINE, on_line)
    mon.set_events(mon.COVERAGE_ID, mon.events.LINE)
    _COVER['on'] = True


def _cover_flush():
    d = os.environ.get('VERIF_COVER')
    if not d or not _COVER['on']:
        return
    os.makedirs(d, exist_ok=True)
    with open(os.path.join(d, 'cov-%d.json' % os.getpid()), 'w') as f:
        json.dump(sorted(_COVER['lines']), f)


def _work(args):
    prop_id, part_name, tier, seed, shard, nshards = args
    warnings.simplefilter('ignore')
    _cover_start()
    stats = Stats()
    t0 = time.time()
    try:
        mod = _load(prop_id)
        part = next(p for p in mod.PARTS if p.name == part_name)
        last_fail = {}

        def guarded(case):
            try:
                _evaluate(part, case, stats, _case_limit(tier))
            except CaseTimeout as e:
                last_fail['case'] = json.loads(canon(case))
                v = Violation('the case did not return within %d s (ordinary cases take seconds at most): the library does not terminate on this input' % _case_limit(tier))
                last_fail['exc'] = v
                last_fail['tb'] = e.__traceback__
                last_fail['timeout'] = True
                raise
            except BaseException as e:  # noqa
                if isinstance(e, (KeyboardInterrupt, SystemExit)):
                    raise
                last_fail['case'] = json.loads(canon(getattr(e, 'case_override', None) or case))
                last_fail['exc'] = e
                last_fail['tb'] = e.__traceback__
                raise

        if part.kind == 'enum':
            for idx, case in enumerate(part.enum(tier)):
                if idx % nshards != shard:
                    continue
                try:
                    guarded(case)
                except (Exception, CaseTimeout):
                    break
        else:
            import hypothesis
            from hypothesis import given, settings, HealthCheck, Phase, seed as hseed
            phases = [Phase.generate] + ([Phase.shrink] if part.shrink else [])
            n = part.n[tier]

            @hseed(_derive_seed(seed, part_name, shard))
            @settings(max_examples=n, database=None, deadline=None, report_multiple_bugs=False,
                      suppress_health_check=list(HealthCheck), phases=phases,
                      print_blob=False, verbosity=hypothesis.Verbosity.quiet)
            @given(part.strategy(tier))
            def t(case):
                guarded(case)
            try:
                t()
            except CaseTimeout:
                pass
            except Exception as e:  # noqa
                if 'exc' not in last_fail:
                    # raised by hypothesis itself (e.g. Flaky, Unsatisfiable)
                    stats.harness_error = _describe(e, e.__traceback__)
        if 'exc' in last_fail:
            kind = _classify(last_fail['exc'], last_fail['tb'])
            d = _describe(last_fail['exc'], last_fail['tb'])
            d['case'] = last_fail['case']
            if kind == 'violation':
                stats.failure = d
            else:
                stats.harness_error = d
    except BaseException as e:  # noqa
        stats.harness_error = _describe(e, e.__traceback__)
    out = stats.as_dict()
    out.update(part=part_name, shard=shard, wall=time.time() - t0)
    _cover_flush()
    return out


# --------------------------------------------------------------------------------------
# replay


def replay_file(prop_id, path, quiet=False):
    """Run one saved case. Returns (ok, description)."""
    mod = _load(prop_id)
    with open(path) as f:
        doc = json.load(f)
    part = next(p for p in mod.PARTS if p.name == doc['part'])
    rec = Rec()
    try:
        part.check(doc['case'], rec)
    except Exception as e:  # noqa
        kind = _classify(e, e.__traceback__)
        d = _describe(e, e.__traceback__)
        d['kind'] = kind
        return False, d, rec
    return True, None, rec


def save_replay(prop_id, part_name, failure):
    # VERIF_REPLAY_DIR redirects failure replays (used by the tools that run the checks against seeded changes / mutants)
    d = os.path.join(os.environ.get('VERIF_REPLAY_DIR') or os.path.join(VERIF, 'replays'), prop_id)
    os.makedirs(d, exist_ok=True)
    h = '%016x' % case_hash(failure['case'])
    path = os.path.join(d, f'fail-{part_name}-{h}.json')
    with open(path, 'w') as f:
        json.dump({'property': prop_id, 'part': part_name, 'case': failure['case'],
                   'error': {k: failure[k] for k in ('type', 'message', 'where')}},
                  f, indent=1, sort_keys=True, default=_jsonable)
    return os.path.relpath(path, VERIF)


# --------------------------------------------------------------------------------------
# coverage-guided campaigns


def _run_fuzz_parts(prop_id, fparts, tier, seed):
    import subprocess
    import shutil
    out = []
    if not fparts:
        return out
    base = os.path.join(VERIF, '.fuzz')
    procs = []
    for p in fparts:
        for k in range(p.workers[tier]):
            d = os.path.join(base, f'{prop_id}-{p.name}-{k}')
            shutil.rmtree(d, ignore_errors=True)
            os.makedirs(d, exist_ok=True)
            cmd = [sys.executable, '-W', 'ignore', os.path.join(HERE, 'fuzz_target.py'), prop_id, p.fuzz_of,
                   str(p.runs[tier]), str(_derive_seed(seed, p.name, k) % 100000 + 1), d]
            log = open(os.path.join(d, 'log'), 'w')
            procs.append((p, k, d, subprocess.Popen(cmd, stdout=log, stderr=subprocess.STDOUT, cwd=VERIF), log))
    for p, k, d, pr, log in procs:
        rc = pr.wait()
        log.close()
        r = Stats().as_dict()
        r.update(part=p.name, shard=k, wall=0.0, execs=0)
        try:
            with open(os.path.join(d, 'stats.json')) as f:
                st_ = json.load(f)
            for key in ('evaluations', 'nontrivial', 'labels', 'samples', 'excluded_known', 'unjudged', 'metrics', 'bulk_nontrivial'):
                r[key] = st_.get(key, r[key])
            r['execs'] = st_.get('execs', 0); r['wall'] = st_.get('wall', 0.0)
        except Exception as e:  # noqa
            r['harness_error'] = {'type': 'FuzzStatsMissing', 'message': f'no statistics from fuzz worker (rc={rc}): {e}', 'where': 'fuzz_target.py', 'traceback': ''}
        fj = os.path.join(d, 'failure.json')
        if os.path.exists(fj):
            with open(fj) as f:
                fd = json.load(f)
            if fd.get('kind') == 'violation':
                r['failure'] = fd
            else:
                r['harness_error'] = fd
        elif rc not in (0,):
            with open(os.path.join(d, 'log')) as f:
                tail = f.read()[-1500:]
            r['harness_error'] = {'type': 'FuzzerExit', 'message': f'fuzz worker exited with status {rc}', 'where': 'fuzz_target.py', 'traceback': tail}
        out.append(r)
        shutil.rmtree(d, ignore_errors=True)
    return out


# --------------------------------------------------------------------------------------
# main


def write_evidence(prop_id, doc):
    # sensitivity runs against mutated copies redirect their evidence so that /verif/evidence only ever describes /repo
    d = os.environ.get('VERIF_EVIDENCE_DIR') or os.path.join(VERIF, 'evidence')
    os.makedirs(d, exist_ok=True)
    tmp = os.path.join(d, f'.{prop_id}.json.tmp')
    with open(tmp, 'w') as f:
        json.dump(doc, f, indent=1, sort_keys=True, default=_jsonable)
    os.replace(tmp, os.path.join(d, f'{prop_id}.json'))


def main(argv):
    if len(argv) < 3:
        print(__doc__)
        return 2
    prop_id = argv[1].upper()
    seed = int(os.environ.get('VERIF_SEED', '1') or '1')
    t0 = time.time()

    if argv[2] == '--replay':
        ok, d, _ = replay_file(prop_id, argv[3])
        if ok:
            print(f'replay of {argv[3]}: property holds on this case')
            return 0
        if d['kind'] == 'harness':
            print(f'HARNESS-ERROR during replay: {d["type"]}: {d["message"]}\n{d["traceback"]}')
            return 2
        print(f'{d["type"]}: {d["message"]}  [{d["where"]}]')
        print(f'VIOLATION property={prop_id} replay={argv[3]}')
        return 1

    tier = argv[2]
    if tier not in ('quick', 'thorough'):
        print(f'unknown tier {tier}')
        return 2
    only = argv[3:]  # optional list of part names (debugging aid)

    try:
        mod = _load(prop_id)
    except Exception as e:  # noqa
        traceback.print_exc()
        print(f'HARNESS-ERROR cannot load property module: {e}')
        return 2

    violations = []
    harness_errors = []
    known_lines = []

    # 1. regression replays and known-finding witnesses (both tiers, run first)
    regress_stats = Stats()
    rdir = os.path.join(VERIF, 'replays', prop_id)
    kf_witness = {}
    for f in known_findings():
        if f['property'] == prop_id and f['kind'] == 'known' and f.get('replay'):
            kf_witness[os.path.normpath(os.path.join(VERIF, f['replay']))] = f
    if os.path.isdir(rdir):
        for fn in sorted(os.listdir(rdir)):
            if not fn.endswith('.json') or fn.startswith('fail-'):
                continue
            path = os.path.join(rdir, fn)
            if os.path.normpath(path) in kf_witness:
                continue
            ok, d, rec = replay_file(prop_id, path)
            with open(path) as fh:
                doc = json.load(fh)
            if ok:
                regress_stats.add(doc['case'], rec)
            elif d['kind'] == 'harness':
                harness_errors.append({'part': 'replay:' + fn, **d})
            else:
                regress_stats.evaluations += 1
                violations.append((os.path.relpath(path, VERIF), d))
    for path, f in sorted(kf_witness.items()):
        prev = os.environ.get('VERIF_NO_SUPPRESS')
        os.environ['VERIF_NO_SUPPRESS'] = '1'
        try:
            ok, d, rec = replay_file(prop_id, path)
        finally:
            if prev is None:
                del os.environ['VERIF_NO_SUPPRESS']
            else:
                os.environ['VERIF_NO_SUPPRESS'] = prev
        regress_stats.evaluations += 1
        if not ok and d['kind'] == 'violation':
            known_lines.append(f'KNOWN-FINDING: property={prop_id} {f["what"]}')
        elif not ok:
            harness_errors.append({'part': 'known-witness', **d})
        else:
            print(f'note: known finding "{f["key"]}" no longer reproduces on its witness {f["replay"]}')

    # 2. generated search
    ctx = multiprocessing.get_context('fork')
    tasks = []
    parts = [p for p in mod.PARTS if not only or p.name in only]
    for p in parts:
        if p.kind == 'fuzz':
            continue
        w = p.workers[tier]
        for k in range(w):
            tasks.append((prop_id, p.name, tier, seed, k, w))
    nproc = min(len(tasks), int(os.environ.get('VERIF_JOBS', '16')))
    results = []
    if tasks:
        with ctx.Pool(nproc) as pool:
            for r in pool.imap_unordered(_work, tasks, chunksize=1):
                results.append(r)
    results += _run_fuzz_parts(prop_id, [p for p in parts if p.kind == 'fuzz' and p.runs.get(tier, 0) > 0], tier, seed)
    results.sort(key=lambda r: (r['part'], r['shard']))

    per_part = {}
    bulk_total = 0
    nontrivial = set(regress_stats.nontrivial)
    evaluations = regress_stats.evaluations
    samples = []
    excluded_known = 0
    unjudged = {}
    for p in parts:
        rs = [r for r in results if r['part'] == p.name]
        nt = set()
        labels = {}
        metrics = {}
        ev = 0
        bulk_nt = 0
        for r in rs:
            ev += r['evaluations']
            bulk_nt += r['bulk_nontrivial']
            nt.update(r['nontrivial'])
            for k, v in r['labels'].items():
                labels[k] = labels.get(k, 0) + v
            for k, v in r['unjudged'].items():
                unjudged[p.name + ':' + k] = unjudged.get(p.name + ':' + k, 0) + v
            for k, v in r['metrics'].items():
                metrics[k] = max(metrics.get(k, v), v)
            excluded_known += r['excluded_known']
            if r['failure'] is not None:
                path = save_replay(prop_id, p.name, r['failure'])
                violations.append((path, r['failure']))
            if r['harness_error'] is not None:
                harness_errors.append({'part': p.name, **r['harness_error']})
        for r in rs[:2]:
            for s in r['samples'][:3]:
                if len(samples) < 12:
                    samples.append({'part': p.name, 'case': s})
        evaluations += ev
        nontrivial.update((p.name, h) for h in nt)
        bulk_total += bulk_nt
        if p.kind == 'fuzz' and not rs:
            continue
        per_part[p.name] = {'kind': {'enum': 'enumeration', 'hyp': 'hypothesis', 'fuzz': 'atheris/libFuzzer (structure-aware via Hypothesis fuzz_one_input)'}[p.kind],
                            'evaluations': ev, 'distinct_nontrivial': len(nt) + bulk_nt,
                            'classes': dict(sorted(labels.items())),
                            'worst_observed': metrics,
                            'exhaustive': bool(p.exhaustive and p.kind == 'enum'),
                            'workers': p.workers[tier], 'doc': p.doc,
                            'fuzz_execs': sum(r.get('execs', 0) for r in rs) if p.kind == 'fuzz' else None,
                            'wall_s': round(max([r['wall'] for r in rs], default=0.0), 2)}
    if not samples and regress_stats.samples:
        samples = [{'part': 'replay', 'case': s} for s in regress_stats.samples]

    # de-duplicate violations by (part, type, where): one line per root-cause bucket
    seen = set()
    vio_lines = []
    for path, d in violations:
        key = (d.get('type'), d.get('where'), d.get('message', '').split('{')[0][:80])
        if key in seen:
            continue
        seen.add(key)
        vio_lines.append((path, d))

    wall = time.time() - t0
    evidence = {
        'property_id': prop_id, 'tier': tier, 'seed': seed, 'level': 'exploration',
        'wall_s': round(wall, 2), 'violations': len(vio_lines),
        'assumptions': list(getattr(mod, 'ASSUME', [])),
        'coverage': {
            'evaluations': evaluations,
            'distinct_nontrivial': len(nontrivial) + bulk_total,
            'rule': mod.RULE,
            'samples': samples,
            'parts': per_part,
            'regression_replays': regress_stats.evaluations,
            'excluded_known': excluded_known,
            'unjudged': dict(sorted(unjudged.items())),
            'known_findings_reproduced': known_lines,
            'exhaustive': bool(per_part) and all(v['exhaustive'] for v in per_part.values()),
            'pytenet_path': PYTENET_PATH,
            'harness_errors': [{k: e.get(k) for k in ('part', 'type', 'message', 'where')} for e in harness_errors],
        },
    }
    write_evidence(prop_id, evidence)

    for l in known_lines:
        print(l)
    for name, pp in per_part.items():
        print(f'[{prop_id}/{name}] {pp["kind"]}: {pp["evaluations"]} cases, '
              f'{pp["distinct_nontrivial"]} distinct non-trivial, {pp["wall_s"]} s')
    print(f'[{prop_id}] tier={tier} seed={seed} evaluations={evaluations} '
          f'distinct_nontrivial={len(nontrivial) + bulk_total} excluded_known={excluded_known} wall={wall:.1f}s')

    if harness_errors:
        for e in harness_errors:
            print(f'HARNESS-ERROR part={e["part"]} {e["type"]}: {e["message"]} [{e.get("where")}]')
            if e.get('traceback'):
                print(e['traceback'])
    if vio_lines:
        for path, d in vio_lines:
            print(f'{d["type"]}: {d["message"][:600]}  [{d["where"]}]')
            print(f'VIOLATION property={prop_id} replay={path}')
        return 1
    if harness_errors:
        return 2
    return 0
