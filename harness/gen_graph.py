"""
Generators for operator programs: chain lists, layered operator graphs, operator trees, automata.
Descriptors are plain JSON; builders construct the pytenet objects.

Symbol table (operator ids -> charge shift). The identity id is 0.
    0: identity (0),  1: a (+1),  -1: b (-1),  2: c (0),  3: d (0),  4: e (+1),  5: f (-1),  -2: g (0)
(ids -1 and -2 are both present on purpose: hash(-1) == hash(-2) in CPython)
"""
import numpy as np
from hypothesis import strategies as st

import pytenet as ptn

OID_ID = 0
SYMBOLS = {0: 0, 1: +1, -1: -1, 2: 0, 3: 0, 4: +1, 5: -1, -2: 0}
SYM_BY_CHARGE = {0: [2, 0, 3, -2], 1: [1, 4], -1: [-1, 5]}

# coefficients k/8: every float addition the implementation performs on them is exact
DYADIC = [k / 8 for k in (8, -8, 4, -4, 16, 12, -20, 1, 3, -5, 24, 2)]


def _Lchoices(Lmax):
    return [l for l in range(2, Lmax + 1)] + [1]


def coeff_strategy(style):
    if style == 'dyadic':
        return st.sampled_from(DYADIC)
    return st.one_of(st.sampled_from(DYADIC), st.floats(-3, 3).filter(lambda x: abs(x) > 1e-3),
                     st.sampled_from([1e-6, -1e5, 0.1, 1 / 3, -2.7e3, 1e-9, -3e-12, 1e-20]))


# --------------------------------------------------------------------------------------
# chains


@st.composite
def chain(draw, L, charged, nsym, cstyle, arbitrary_q=False):
    n = draw(st.sampled_from(list(range(1, L + 1))))
    istart = draw(st.sampled_from(list(range(0, L - n + 1))))
    syms = {2: [2, 0, -2], 3: [2, 0, 1, -1], 4: [2, -2, 0, 1, -1], 5: [2, 0, 3, 1, -1, 4, 5, -2]}[nsym]
    oids = []
    qnums = [0]
    q = 0
    for i in range(n):
        rem = n - i - 1
        if charged:
            allowed = [s for s in syms if abs(q + SYMBOLS[s]) <= rem]
        else:
            allowed = syms
        s = allowed[draw(st.integers(0, len(allowed) - 1))]
        oids.append(s)
        q += SYMBOLS[s] if charged else 0
        qnums.append(q)
    if arbitrary_q and n >= 2:
        # interior quantum numbers unrelated to the symbols (graph level only)
        for i in range(1, n):
            qnums[i] = draw(st.integers(-2, 2))
    return {'oids': oids, 'qnums': qnums, 'coeff': draw(coeff_strategy(cstyle)), 'istart': istart}


@st.composite
def chain_list(draw, Lmax=8, nmax=12, for_mpo=False):
    L = draw(st.sampled_from(_Lchoices(Lmax)))
    charged = draw(st.booleans())
    nsym = draw(st.integers(2, 5))
    cstyle = draw(st.sampled_from(['dyadic', 'dyadic', 'float']))
    arbitrary_q = (not for_mpo) and (not charged) and draw(st.sampled_from([False, False, True]))
    n = draw(st.sampled_from(list(range(1, nmax + 1))))
    chains = [draw(chain(L, charged, nsym, cstyle, arbitrary_q)) for _ in range(n)]
    # decorations: duplicates that accumulate or cancel, zero coefficients
    ndec = draw(st.integers(0, 3))
    for _ in range(ndec):
        kind = draw(st.sampled_from(['dup', 'cancel', 'zero', 'scale']))
        src = dict(chains[draw(st.integers(0, len(chains) - 1))])
        if kind == 'dup':
            src['coeff'] = draw(coeff_strategy(cstyle))
        elif kind == 'cancel':
            src['coeff'] = -src['coeff']
        elif kind == 'zero':
            src['coeff'] = 0.0
        else:
            src['coeff'] = src['coeff'] * 2
        pos = draw(st.integers(0, len(chains)))
        chains.insert(pos, src)
    # fresh chains with coefficient exactly zero (they must not leave any trace in the graph), also at position 0
    nzero = draw(st.sampled_from([0, 0, 1, 2]))
    for _ in range(nzero):
        z = draw(chain(L, charged, nsym, cstyle, arbitrary_q))
        z['coeff'] = 0.0
        pos = draw(st.sampled_from([0, 0, len(chains) // 2, len(chains)]))
        chains.insert(pos, z)
    return {'L': L, 'chains': chains, 'charged': charged, 'cstyle': cstyle}


def _coeff_form(c, k):
    """Legal argument forms of one and the same coefficient value: Python float / int, NumPy scalar, complex with zero imaginary part.
    (Single-precision NumPy scalars are deliberately not among them: under NumPy's promotion rules a float32 coefficient makes the sums
    of coefficients single precision, which is the caller's choice and not a defect of the library - an earlier version of this
    generator raised that false alarm against C05 / C16 within one run and was corrected.)"""
    if k % 4 == 1 and float(c).is_integer() and abs(c) < 2**31:
        return int(c)
    if k % 4 == 2:
        return np.float64(c)
    if k % 4 == 3:
        return complex(c, 0.0)
    return c


def swap_id(oid, ident):
    """Renaming that makes `ident` the identity id: ids 0 and `ident` are swapped, all others unchanged."""
    if ident == 0:
        return oid
    if oid == 0:
        return ident
    if oid == ident:
        return 0
    return oid


def with_identity_id(desc, ident):
    """Chain-list descriptor with the identity operator carrying id `ident` instead of 0."""
    if ident == 0:
        return desc
    d = dict(desc)
    d['chains'] = [dict(c, oids=[swap_id(o, ident) for o in c['oids']]) for c in desc['chains']]
    return d


def tree_with_identity_id(tdesc, ident):
    if ident == 0:
        return tdesc

    def rec(node):
        return {'q': node['q'], 'ch': [[swap_id(o, ident), c, rec(ch)] for o, c, ch in node['ch']]}
    return {'istart': tdesc['istart'], 'root': rec(tdesc['root'])}


def opmap_with_identity_id(opmap, ident):
    return {swap_id(k, ident): v for k, v in opmap.items()}


def build_chains(desc):
    out = []
    for k, c in enumerate(desc['chains']):
        oids = c['oids']
        if k % 3 == 1:
            oids = [np.int64(o) for o in oids]      # operator ids as NumPy integers
        elif k % 3 == 2:
            oids = tuple(oids)
        out.append(ptn.OpChain(oids, tuple(c['qnums']) if k % 2 else c['qnums'], _coeff_form(c['coeff'], k), c['istart']))
    return out


def chain_tuples(desc):
    return [(c['oids'], c['coeff'], c['istart']) for c in desc['chains']]


# --------------------------------------------------------------------------------------
# operator maps


def physical_charges(charged, seed, L=1, dense_cap=600):
    """Physical charges for the operator map; the local dimension is limited so that d^L stays within dense reach."""
    rng = np.random.default_rng(seed)
    if not charged:
        cands = [[0] * d for d in (1, 2, 3)]
    else:
        cands = [[0, 1], [1, 0], [0, 1, 2], [1, 0, -1], [0, 1, 1], [2, 1]]
    ok = [c for c in cands if len(c) ** L <= dense_cap] or [cands[0]]
    return ok[int(rng.integers(0, len(ok)))]


def random_opmap(qd, charged, seed, cplx=True):
    """Random matrices for every symbol, respecting the symbol's charge shift: op[s,t] != 0 only if qd[s]-qd[t] = shift."""
    rng = np.random.default_rng(seed)
    qd = np.asarray(qd)
    d = len(qd)
    opmap = {}
    for oid, shift in SYMBOLS.items():
        if oid == OID_ID:
            opmap[oid] = np.identity(d)
            continue
        M = rng.normal(size=(d, d)) + (1j * rng.normal(size=(d, d)) if cplx else 0)
        if charged:
            M = np.where((qd[:, None] - qd[None, :]) == shift, M, 0)
        opmap[oid] = M
    return opmap


# --------------------------------------------------------------------------------------
# layered graphs


@st.composite
def layered_graph(draw, Lmax=6, wmax=4, cstyle=None, id_scheme=None, charged=None, Lfix=None):
    if Lfix is not None:
        Lg = Lfix
    else:
        Lg = draw(st.sampled_from(_Lchoices(Lmax)))
    if charged is None:
        charged = draw(st.booleans())
    if cstyle is None:
        cstyle = draw(st.sampled_from(['dyadic', 'dyadic', 'float']))
    widths = [1] + [draw(st.integers(1, wmax)) for _ in range(Lg - 1)] + [1]
    # node charges
    layers = []
    for l, w in enumerate(widths):
        if l == 0 or l == Lg or not charged:
            layers.append([0] * w)
        else:
            layers.append([draw(st.integers(0, 1)) for _ in range(w)])
    # ids
    if id_scheme is None:
        id_scheme = draw(st.sampled_from(['seq', 'seq', 'shuffled', 'negative', 'offset']))
    total = sum(widths)
    if id_scheme == 'seq':
        ids = list(range(total))
    elif id_scheme == 'shuffled':
        ids = list(draw(st.permutations(list(range(total)))))
    elif id_scheme == 'negative':
        ids = [-(k + 1) for k in range(total)]      # contains -1 and -2 (equal CPython hashes)
    else:
        off = draw(st.integers(1, 50))
        ids = [off + 3 * k for k in range(total)]
    node_ids = []
    k = 0
    for w in widths:
        node_ids.append(ids[k:k + w]); k += w
    nodes = []
    for l in range(Lg + 1):
        for j in range(widths[l]):
            nodes.append([node_ids[l][j], layers[l][j], l])
    # edges: every node of layer l+1 gets an in-edge, every node of layer l gets an out-edge, plus extras
    pairs = []
    for l in range(Lg):
        wl, wr = widths[l], widths[l + 1]
        cur = []
        for j in range(wr):
            cur.append((draw(st.integers(0, wl - 1)), j))
        have_out = {a for a, _ in cur}
        for a in range(wl):
            if a not in have_out:
                cur.append((a, draw(st.integers(0, wr - 1))))
        nextra = draw(st.integers(0, 3))
        for _ in range(nextra):
            cur.append((draw(st.integers(0, wl - 1)), draw(st.integers(0, wr - 1))))   # may create parallel edges
        pairs.append(cur)
    edges = []
    eid_scheme = draw(st.sampled_from(['seq', 'offset', 'negative']))
    ecount = 0
    for l in range(Lg):
        for (a, b) in pairs[l]:
            dq = layers[l + 1][b] - layers[l][a]
            syms = SYM_BY_CHARGE[dq] if charged else [2, 0, 3, 1, -1, -2]
            nops = draw(st.sampled_from([1, 1, 1, 2]))
            opics = []
            for _ in range(nops):
                opics.append([syms[draw(st.integers(0, len(syms) - 1))], draw(coeff_strategy(cstyle))])
            if nops == 2 and opics[0][0] != opics[1][0] and draw(st.sampled_from([False, False, True])):
                # a multi-operator edge whose leading term (smallest operator id) has coefficient exactly one: the configuration
                # in which "skip the scaling by a unit coefficient" shortcuts hand out the caller's operator matrix itself
                opics[0 if opics[0][0] < opics[1][0] else 1][1] = 1.0
            eid = ecount if eid_scheme == 'seq' else (100 + 2 * ecount if eid_scheme == 'offset' else -(ecount + 1))
            edges.append([eid, node_ids[l][a], node_ids[l + 1][b], opics])
            ecount += 1
    # optionally add 'twin' nodes: a second node with the same charge reached from the same node by an edge with the
    # same operators (the configuration node fusion in simplify / merge_edges is meant for)
    ntwin = draw(st.sampled_from([0, 0, 1, 2])) if Lg >= 2 else 0
    for _ in range(ntwin):
        cands = [n for n in nodes if 1 <= n[2] <= Lg - 1 and sum(1 for e in edges if e[2] == n[0]) == 1]
        if not cands:
            break
        v = cands[draw(st.integers(0, len(cands) - 1))]
        ein = next(e for e in edges if e[2] == v[0])
        allids = [n[0] for n in nodes]
        vid = max(allids) + 1 if id_scheme != 'negative' else min(allids) - 1
        nodes.append([vid, v[1], v[2]])
        alle = [e[0] for e in edges]
        def fresh_eid():
            alle2 = [e[0] for e in edges]
            return max(alle2) + 1 if eid_scheme != 'negative' else min(alle2) - 1
        edges.append([fresh_eid(), ein[1], vid, [list(x) for x in ein[3]]])
        # outgoing edge(s) of the twin: copy one outgoing edge of v with (possibly) different operators
        outs = [e for e in edges if e[1] == v[0]]
        eo = outs[draw(st.integers(0, len(outs) - 1))]
        if draw(st.booleans()):
            ops = [list(x) for x in eo[3]]
        else:
            tq = next(n[1] for n in nodes if n[0] == eo[2])
            dq = tq - v[1]
            syms = SYM_BY_CHARGE[dq] if charged else [2, 0, 3, 1, -1, -2]
            ops = [[syms[draw(st.integers(0, len(syms) - 1))], draw(coeff_strategy(cstyle))]]
        edges.append([fresh_eid(), vid, eo[2], ops])
    # optionally add a cancelling parallel edge
    if edges and draw(st.sampled_from(range(6))) == 5:
        src = edges[draw(st.integers(0, len(edges) - 1))]
        eid = max(e[0] for e in edges) + 1 if eid_scheme != 'negative' else min(e[0] for e in edges) - 1
        edges.append([eid, src[1], src[2], [[o, -c] for o, c in src[3]]])
    return {'nodes': nodes, 'edges': edges, 'term': [node_ids[0][0], node_ids[Lg][0]], 'L': Lg,
            'charged': charged, 'cstyle': cstyle}


def build_graph(desc):
    nodes = [ptn.OpGraphNode(n[0], [], [], n[1]) for n in desc['nodes']]
    g = ptn.OpGraph(nodes, [], desc['term'])
    for e in desc['edges']:
        g.add_connect_edge(ptn.OpGraphEdge(e[0], [e[1], e[2]], [(o, c) for o, c in e[3]]))
    return g


def graph_desc_poly(desc, conv):
    """Polynomial of a layered-graph descriptor, computed from the descriptor alone."""
    from oracle_sym import padd
    out_edges = {}
    for e in desc['edges']:
        out_edges.setdefault(e[1], []).append(e)
    memo = {}

    def rec(nid):
        if nid == desc['term'][1]:
            return {(): conv(1)}
        if nid in memo:
            return memo[nid]
        # merge opics with equal id on one edge first? not needed: sums distribute
        out = {}
        for e in out_edges.get(nid, []):
            sub = rec(e[2])
            for oid, c in e[3]:
                cc = conv(c)
                if cc == 0:
                    continue
                for k, v in sub.items():
                    padd(out, (int(oid),) + k, cc * v)
        memo[nid] = out
        return out
    return rec(desc['term'][0])


# --------------------------------------------------------------------------------------
# trees


@st.composite
def tree_node(draw, remaining, q, charged, cstyle, depth=0):
    """Subtree below a node with charge q that has `remaining` sites left; leaves have charge 0."""
    # a node can be a leaf only if its charge is 0 (leaves connect to the zero-charge identity string / terminal)
    can_leaf = (q == 0) and depth > 0
    must_leaf = remaining == 0
    if must_leaf:
        return {'q': 0, 'ch': []}
    if can_leaf and draw(st.sampled_from(range(4))) == 3:
        return {'q': q, 'ch': []}
    nch = draw(st.sampled_from([1, 1, 2, 3])) if depth < 3 else 1
    ch = []
    for _ in range(nch):
        if charged:
            # child charge must be able to return to 0 within remaining-1 steps; at the terminal it must be 0
            cands = [c for c in (-1, 0, 1) if abs(q + c) <= remaining - 1]
            dq = cands[draw(st.integers(0, len(cands) - 1))]
            syms = SYM_BY_CHARGE[dq]
        else:
            dq = 0
            syms = [2, 0, 3, 1, -1]
        oid = syms[draw(st.integers(0, len(syms) - 1))]
        child = draw(tree_node(remaining - 1, q + dq, charged, cstyle, depth + 1))
        ch.append([oid, draw(coeff_strategy(cstyle)), child])
    return {'q': q, 'ch': ch}


@st.composite
def tree_list(draw, Lmax=6):
    L = draw(st.sampled_from(_Lchoices(Lmax)))
    charged = draw(st.booleans())
    cstyle = draw(st.sampled_from(['dyadic', 'dyadic', 'float']))
    n = draw(st.sampled_from([1, 2, 3, 4]))
    trees = []
    for _ in range(n):
        istart = draw(st.sampled_from(list(range(0, L))))
        root = draw(tree_node(L - istart, 0, charged, cstyle))
        trees.append({'istart': istart, 'root': root})
    return {'L': L, 'trees': trees, 'charged': charged, 'cstyle': cstyle}


def build_tree(tdesc):
    # both public ways of assembling a node: children handed to the constructor, or attached one by one with `add_child`
    # (deterministic choice from the descriptor, so that replays build the same objects)
    def rec(node, depth):
        edges = [ptn.OpTreeEdge(oid, c, rec(child, depth + 1)) for oid, c, child in node['ch']]
        if (len(node['ch']) + depth + tdesc['istart']) % 2 == 0:
            return ptn.OpTreeNode(edges, node['q'])
        n = ptn.OpTreeNode([], node['q'])
        for e in edges:
            n.add_child(e)
        return n
    return ptn.OpTree(rec(tdesc['root'], 0), tdesc['istart'])


def tree_height(node):
    if not node['ch']:
        return 0
    return 1 + max(tree_height(c[2]) for c in node['ch'])


# --------------------------------------------------------------------------------------
# automata


@st.composite
def automaton(draw, Lmax=6):
    L = draw(st.sampled_from(_Lchoices(Lmax)))
    nn = draw(st.integers(2, 5))
    charged = draw(st.booleans())
    cstyle = draw(st.sampled_from(['dyadic', 'dyadic', 'float']))
    same_term = draw(st.sampled_from(range(5))) == 4
    nids = list(range(nn))
    q = [0] * nn
    if charged:
        for k in range(nn):
            q[k] = draw(st.integers(0, 1))
    t0 = 0
    t1 = 0 if same_term else 1
    q[t0] = 0; q[t1] = 0
    edges = []

    def mk_edge(a, b, force_active=None, site=None):
        dq = q[b] - q[a]
        syms = SYM_BY_CHARGE[dq] if charged else [2, 0, 3, 1, -1]
        def ops():
            n = draw(st.sampled_from([1, 1, 2]))
            return [[syms[draw(st.integers(0, len(syms) - 1))], draw(coeff_strategy(cstyle))] for _ in range(n)]
        if draw(st.sampled_from(range(4))) == 3:
            opics = {'by_site': [ops() for _ in range(L)]}
        else:
            opics = {'const': ops()}
        mode = draw(st.sampled_from(['true', 'true', 'true', 'by_site', 'false']))
        if force_active is not None:
            mode = 'true' if draw(st.booleans()) else 'by_site'
        if mode == 'true':
            act = True
        elif mode == 'false':
            act = False
        else:
            bs = [draw(st.booleans()) for _ in range(L)]
            if site is not None:
                bs[site] = True
            act = {'by_site': bs}
        return [len(edges), nids[a], nids[b], opics, act]

    # an accepting path of length L first
    path = [t0] + [draw(st.integers(0, nn - 1)) for _ in range(L - 1)] + [t1]
    for i in range(L):
        a, b = path[i], path[i + 1]
        # reuse an existing edge between a and b if it is (or can be made) active at site i
        reuse = None
        for e in edges:
            if e[1] == a and e[2] == b:
                reuse = e
                break
        if reuse is not None:
            if isinstance(reuse[4], dict):
                reuse[4]['by_site'][i] = True
            elif reuse[4] is False:
                reuse[4] = True
            continue
        edges.append(mk_edge(a, b, force_active=True, site=i))
    # further edges around it (self loops, parallel edges, dead states)
    nextra = draw(st.integers(0, 6))
    for _ in range(nextra):
        a = draw(st.integers(0, nn - 1)); b = draw(st.integers(0, nn - 1))
        edges.append(mk_edge(a, b))
    return {'L': L, 'nodes': [[nids[k], q[k]] for k in range(nn)], 'edges': edges, 'term': [nids[t0], nids[t1]],
            'charged': charged, 'cstyle': cstyle}


def build_automaton(desc):
    # both public ways of assembling an automaton (deterministic choice from the descriptor): nodes that already list their edge
    # ids plus all edges handed to the constructor (as the library's own model builders do), or an edge-less automaton that is
    # extended with `add_connect_edge`
    via_ctor = (len(desc['edges']) + len(desc['nodes'])) % 2 == 1
    if via_ctor:
        nodes = [ptn.AutOpNode(n[0], [e[0] for e in desc['edges'] if e[2] == n[0]], [e[0] for e in desc['edges'] if e[1] == n[0]], n[1])
                 for n in desc['nodes']]
        edges = []
    else:
        nodes = [ptn.AutOpNode(n[0], [], [], n[1]) for n in desc['nodes']]
        aut = ptn.AutOp(nodes, [], desc['term'])
    for e in desc['edges']:
        o = e[3]; a = e[4]
        if 'by_site' in o:
            tab = [[(oid, c) for oid, c in lst] for lst in o['by_site']]
            opics = (lambda i, tab=tab: tab[i])
        else:
            opics = [(oid, c) for oid, c in o['const']]
        if isinstance(a, dict):
            bs = list(a['by_site'])
            active = (lambda i, bs=bs: bs[i])
        else:
            active = bool(a)
        edge = ptn.AutOpEdge(e[0], [e[1], e[2]], opics, active)
        if via_ctor:
            edges.append(edge)
        else:
            aut.add_connect_edge(edge)
    if via_ctor:
        aut = ptn.AutOp(nodes, edges, desc['term'])
    return aut
