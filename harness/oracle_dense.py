"""
Independent dense semantics for MPS / MPO tensors (DESIGN 3.2).

Nothing here calls pytenet. Index conventions are taken from the class docstrings:
MPS tensor A[s, l, r], MPO tensor W[s_out, s_in, l, r]; the first site is the most
significant digit of the dense index (Kronecker-product order).
"""
import numpy as np


def mps_to_vec(Alist):
    T = np.ones((1, Alist[0].shape[1]), dtype=Alist[0].dtype)
    # T[(s_0 ... s_{i-1}), bond]
    if Alist[0].shape[1] != 1:
        raise ValueError('leading bond dimension must be 1 for a dense vector')
    for A in Alist:
        T = np.tensordot(T, A, axes=(1, 1))        # (n, d, Dr)
        T = T.reshape(T.shape[0] * T.shape[1], T.shape[2])
    if T.shape[1] != 1:
        raise ValueError('trailing bond dimension must be 1 for a dense vector')
    return T[:, 0]


def mpo_to_mat(Wlist):
    if Wlist[0].shape[2] != 1 or Wlist[-1].shape[3] != 1:
        raise ValueError('outer bond dimensions must be 1 for a dense matrix')
    T = np.ones((1, 1, 1), dtype=Wlist[0].dtype)
    # T[(s...), (t...), bond]
    for W in Wlist:
        T = np.tensordot(T, W, axes=(2, 2))        # (a, b, s, t, Dr)
        T = T.transpose(0, 2, 1, 3, 4)
        s = T.shape
        T = T.reshape(s[0] * s[1], s[2] * s[3], s[4])
    return T[:, :, 0]


def mps_mask_violation(A, qd, ql, qr):
    """Largest |entry| of A[s,l,r] at a position with qd[s] + ql[l] - qr[r] != 0."""
    qd = np.asarray(qd); ql = np.asarray(ql); qr = np.asarray(qr)
    m = qd[:, None, None] + ql[None, :, None] - qr[None, None, :]
    bad = np.abs(A)[m != 0]
    return float(bad.max()) if bad.size else 0.0


def mpo_mask_violation(W, qd, ql, qr):
    """Largest |entry| of W[s,t,l,r] at a position with qd[s] - qd[t] + ql[l] - qr[r] != 0."""
    qd = np.asarray(qd); ql = np.asarray(ql); qr = np.asarray(qr)
    m = qd[:, None, None, None] - qd[None, :, None, None] + ql[None, None, :, None] - qr[None, None, None, :]
    bad = np.abs(W)[m != 0]
    return float(bad.max()) if bad.size else 0.0


def mat_mask_violation(M, q0, q1):
    """Largest |entry| of M[i,j] with q0[i] != q1[j]."""
    q0 = np.asarray(q0); q1 = np.asarray(q1)
    m = q0[:, None] - q1[None, :]
    bad = np.abs(M)[m != 0]
    return float(bad.max()) if bad.size else 0.0


def basis_charges(qd, L):
    """Total physical charge of every dense basis state (first site most significant)."""
    qd = np.asarray(qd)
    q = np.zeros(1, dtype=qd.dtype if qd.dtype.kind in 'iu' else int)
    for _ in range(L):
        q = (q[:, None] + qd[None, :]).reshape(-1)
    return q


def schmidt_values(vec, d, L, cut):
    """Singular values of the dense state across the cut between sites cut-1 and cut."""
    M = np.asarray(vec).reshape(d**cut, d**(L - cut))
    return np.linalg.svd(M, compute_uv=False)


def operator_schmidt_values(mat, d, L, cut):
    """Singular values of the operator across a cut (operator Schmidt decomposition)."""
    T = np.asarray(mat).reshape(d**cut, d**(L - cut), d**cut, d**(L - cut))
    T = T.transpose(0, 2, 1, 3).reshape(d**(2 * cut), d**(2 * (L - cut)))
    return np.linalg.svd(T, compute_uv=False)


def kron_all(mats):
    out = np.identity(1)
    for m in mats:
        out = np.kron(out, m)
    return out
