"""Entry point (kept separate so that `core` is imported exactly once under its own name)."""
import sys
import core

if __name__ == '__main__':
    sys.exit(core.main(sys.argv))
