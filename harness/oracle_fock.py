"""
Reference Hamiltonians built from occupation-number basis states and textbook definitions (DESIGN C06/C07).
Independent of pytenet and of the helpers in the repository's tests.

Conventions (fixed by the documented formulas / the Z-strings of `linear_fermionic_mpo`):
 * dense index = Kronecker order, site 0 most significant;
 * fermionic mode p: occupation bit n_p; creation operator a_p^dagger carries the sign (-1)^(number of occupied
   modes q > p), i.e. a Jordan-Wigner string of Z operators to the *right* of p;
 * spinful sites (Fermi-Hubbard, spin-orbital molecular): site i consists of the two modes (2i, 2i+1) = (up, down),
   local basis order |n_up n_dn> = 00, 01, 10, 11.
"""
import numpy as np
from scipy import sparse


# --------------------------------------------------------------------------------------
# generic helpers


def site_op(op, i, L, d):
    """op acting on site i of L sites with local dimension d (dense)."""
    return np.kron(np.kron(np.identity(d ** i), op), np.identity(d ** (L - i - 1)))


def two_site_op(op0, op1, i, L, d):
    """op0 on site i, op1 on site i+1."""
    return np.kron(np.kron(np.identity(d ** i), np.kron(op0, op1)), np.identity(d ** (L - i - 2)))


# --------------------------------------------------------------------------------------
# spin and boson models (textbook definitions)


def ising(L, J, h, g):
    X = np.array([[0., 1.], [1., 0.]]); Z = np.array([[1., 0.], [0., -1.]])
    H = np.zeros((2 ** L, 2 ** L))
    for i in range(L - 1):
        H += J * two_site_op(Z, Z, i, L, 2)
    for i in range(L):
        H += h * site_op(Z, i, L, 2) + g * site_op(X, i, L, 2)
    return H


def spin_matrices(s2):
    """Spin operators (Sx, Sy, Sz) for spin s = s2/2, basis ordered m = s, s-1, ..., -s."""
    s = s2 / 2
    ms = [s - k for k in range(s2 + 1)]
    n = len(ms)
    Sz = np.diag(ms).astype(complex)
    Sp = np.zeros((n, n), dtype=complex)
    for k in range(1, n):
        m = ms[k]
        Sp[k - 1, k] = np.sqrt(s * (s + 1) - m * (m + 1))
    Sm = Sp.conj().T
    return (Sp + Sm) / 2, (Sp - Sm) / (2j), Sz


def heisenberg_xxz(L, J, D, h, s2=1):
    """sum_i J (Sx Sx + Sy Sy) + D Sz Sz  -  h sum_i Sz, spin s2/2."""
    Sx, Sy, Sz = spin_matrices(s2)
    d = s2 + 1
    H = np.zeros((d ** L, d ** L), dtype=complex)
    for i in range(L - 1):
        H += J * (two_site_op(Sx, Sx, i, L, d) + two_site_op(Sy, Sy, i, L, d)) + D * two_site_op(Sz, Sz, i, L, d)
    for i in range(L):
        H -= h * site_op(Sz, i, L, d)
    return H


def bose_hubbard(d, L, t, U, mu):
    """-t sum (b_i^dag b_{i+1} + h.c.) + U/2 sum n(n-1) - mu sum n with local occupancies 0..d-1."""
    b = np.zeros((d, d))
    for n in range(1, d):
        b[n - 1, n] = np.sqrt(n)
    bd = b.T
    num = np.diag(np.arange(d, dtype=float))
    H = np.zeros((d ** L, d ** L))
    for i in range(L - 1):
        H += -t * (two_site_op(bd, b, i, L, d) + two_site_op(b, bd, i, L, d))
    for i in range(L):
        H += 0.5 * U * site_op(num @ (num - np.identity(d)), i, L, d) - mu * site_op(num, i, L, d)
    return H


# --------------------------------------------------------------------------------------
# fermions in the occupation number basis


def fermi_ops(nmodes):
    """Sparse creation operators a_p^dagger (list) on nmodes modes from bit strings; mode 0 is the most significant bit."""
    N = 2 ** nmodes
    cre = []
    for p in range(nmodes):
        rows = []; cols = []; vals = []
        shift = nmodes - 1 - p
        for state in range(N):
            if (state >> shift) & 1:
                continue
            # sign: parity of occupied modes to the right of p (q > p  <=> less significant bits)
            right = state & ((1 << shift) - 1)
            sign = -1.0 if bin(right).count('1') % 2 else 1.0
            rows.append(state | (1 << shift)); cols.append(state); vals.append(sign)
        cre.append(sparse.csr_matrix((vals, (rows, cols)), shape=(N, N)))
    return cre


def fermi_hubbard(L, t, U, mu):
    """-t sum_{i,s} (a_{i,s}^dag a_{i+1,s} + h.c.) + U sum (n_up - 1/2)(n_dn - 1/2) - mu sum (n_up + n_dn)."""
    cre = fermi_ops(2 * L)
    ann = [c.T.conj() for c in cre]
    N = 4 ** L
    Id = sparse.identity(N, format='csr')
    H = sparse.csr_matrix((N, N), dtype=float)
    for i in range(L - 1):
        for s in (0, 1):
            p, q = 2 * i + s, 2 * (i + 1) + s
            H = H - t * (cre[p] @ ann[q] + cre[q] @ ann[p])
    for i in range(L):
        nu = cre[2 * i] @ ann[2 * i]; nd = cre[2 * i + 1] @ ann[2 * i + 1]
        H = H + U * (nu - 0.5 * Id) @ (nd - 0.5 * Id) - mu * (nu + nd)
    return np.asarray(H.todense())


def linear_fermionic(coeff, ftype):
    """sum_i coeff_i a_i^dagger (ftype creation) or sum_i coeff_i a_i."""
    L = len(coeff)
    cre = fermi_ops(L)
    N = 2 ** L
    H = sparse.csr_matrix((N, N), dtype=complex)
    for i in range(L):
        op = cre[i] if ftype in ('c', 'create', 'creation') else cre[i].T.conj()
        H = H + complex(coeff[i]) * op
    return np.asarray(H.todense())


def molecular(tkin, vint):
    """sum t_ij a_i^dag a_j + 1/2 sum v_ijkl a_i^dag a_j^dag a_l a_k (sparse)."""
    tkin = np.asarray(tkin); vint = np.asarray(vint)
    L = tkin.shape[0]
    cre = fermi_ops(L)
    ann = [c.T.conj() for c in cre]
    N = 2 ** L
    H = sparse.csr_matrix((N, N), dtype=complex)
    for i in range(L):
        for j in range(L):
            if tkin[i, j] != 0:
                H = H + complex(tkin[i, j]) * (cre[i] @ ann[j])
    # pre-compute pair products
    cc = {}
    aa = {}
    for i in range(L):
        for j in range(L):
            if i != j:
                cc[(i, j)] = cre[i] @ cre[j]
                aa[(i, j)] = ann[i] @ ann[j]
    for i in range(L):
        for j in range(L):
            if i == j:
                continue
            for k in range(L):
                for l in range(L):
                    if k == l:
                        continue
                    v = vint[i, j, k, l]
                    if v != 0:
                        H = H + 0.5 * complex(v) * (cc[(i, j)] @ aa[(l, k)])
    return H


def spin_molecular(tkin, vint):
    """
    sum_{ij,s} t_ij a_{is}^dag a_{js} + 1/2 sum_{ijkl,s,t} v_ijkl a_{is}^dag a_{jt}^dag a_{lt} a_{ks};
    spin orbital (i, s) is mode 2i + s.
    """
    tkin = np.asarray(tkin); vint = np.asarray(vint)
    L = tkin.shape[0]
    cre = fermi_ops(2 * L)
    ann = [c.T.conj() for c in cre]
    N = 4 ** L
    H = sparse.csr_matrix((N, N), dtype=complex)
    for i in range(L):
        for j in range(L):
            if tkin[i, j] != 0:
                for s in (0, 1):
                    H = H + complex(tkin[i, j]) * (cre[2 * i + s] @ ann[2 * j + s])
    for i in range(L):
        for j in range(L):
            for k in range(L):
                for l in range(L):
                    v = vint[i, j, k, l]
                    if v == 0:
                        continue
                    for s in (0, 1):
                        for t in (0, 1):
                            p, q, r, u = 2 * i + s, 2 * j + t, 2 * l + t, 2 * k + s
                            if p == q or r == u:
                                continue
                            H = H + 0.5 * complex(v) * (cre[p] @ cre[q] @ ann[r] @ ann[u])
    return H
