"""
Quantum-number aware generators (DESIGN 3.1): Hypothesis strategies that *construct*
sector-consistent MPS / MPO / matrix descriptors, and builders turning a descriptor into
pytenet objects. A descriptor is plain JSON: explicit charge lists + an integer seed + an entry
style, so a case replays without Hypothesis.
"""
import numpy as np
from hypothesis import strategies as st

import pytenet as ptn

ENTRY_STYLES = ['complex', 'complex', 'real', 'smallint', 'intdtype', 'dupcols', 'zeroblock']
FLOAT_STYLES = ['complex', 'complex', 'real', 'smallint', 'dupcols', 'zeroblock']


# --------------------------------------------------------------------------------------
# entries


def fill_entries(shape, rng, style):
    """Unmasked random entries of the given style."""
    if style == 'complex':
        return (rng.normal(size=shape) + 1j * rng.normal(size=shape)) / np.sqrt(2)
    if style == 'real':
        return rng.normal(size=shape)
    if style == 'smallint':
        return rng.choice([-2.0, -1.0, 1.0, 1.0, 2.0, 3.0, 0.0], size=shape)
    if style == 'intdtype':
        return rng.choice(np.array([-3, -2, -1, 1, 1, 2, 3, 0], dtype=np.int64), size=shape)
    if style == 'dupcols':
        A = rng.normal(size=shape)
        n = shape[-1]
        if n >= 2:
            # make the last axis rank deficient: copy slices onto each other
            src = rng.integers(0, n, size=n)
            keep = rng.random(n) < 0.5
            keep[0] = True
            idx = np.where(keep, np.arange(n), src)
            A = A[..., idx]
        return A
    if style == 'zeroblock':
        A = rng.normal(size=shape) + 1j * rng.normal(size=shape)
        # zero a random slice along the last two axes
        if len(shape) >= 2:
            for ax in (-1, -2):
                n = shape[ax]
                if n >= 2 and rng.random() < 0.7:
                    k = int(rng.integers(0, n))
                    sl = [slice(None)] * len(shape)
                    sl[ax] = k
                    A[tuple(sl)] = 0
        return A
    raise ValueError(style)


def mps_mask(qd, ql, qr):
    qd = np.asarray(qd); ql = np.asarray(ql); qr = np.asarray(qr)
    return (qd[:, None, None] + ql[None, :, None] - qr[None, None, :]) == 0


def mpo_mask(qd, ql, qr):
    qd = np.asarray(qd); ql = np.asarray(ql); qr = np.asarray(qr)
    return (qd[:, None, None, None] - qd[None, :, None, None] + ql[None, None, :, None] - qr[None, None, None, :]) == 0


# --------------------------------------------------------------------------------------
# charges


@st.composite
def qd_strategy(draw, dmin=1, dmax=4, kinds=('zero', 'small', 'small', 'small', 'pairs')):
    kind = draw(st.sampled_from(kinds))
    d = draw(st.sampled_from(_pref_order(dmin, dmax)))
    if kind == 'zero':
        return [0] * d
    if kind == 'small':
        return draw(st.lists(st.integers(-2, 2), min_size=d, max_size=d))
    # encoded pairs as used by the Fermi-Hubbard and spin-orbital models
    qa = draw(st.lists(st.integers(0, 2), min_size=d, max_size=d))
    qb = draw(st.lists(st.integers(-1, 1), min_size=d, max_size=d))
    return [(a << 16) + b for a, b in zip(qa, qb)]


def _pref_order(lo, hi):
    """
    Values lo..hi ordered so that Hypothesis' preferred (first) choice is a small but non-degenerate
    size (2 if available): generation over-samples the first choice and shrinking moves towards it.
    """
    vals = list(range(lo, hi + 1))
    pref = [v for v in vals if v >= 2] + [v for v in vals if v < 2]
    return pref


def _sumsets(steps, L):
    out = [{0}]
    for _ in range(L):
        out.append({a + s for a in out[-1] for s in steps})
    return out


_ORDERS = ['asis', 'asis', 'sorted', 'revsorted', 'perm']


@st.composite
def bond_charges(draw, L, steps, q0=0, Dmax=5, junk=True, disjoint_prob=0.04, base=None):
    """
    Bond charge lists qD[0..L] for increments `steps` (qD[i+1] = qD[i] + step): charges along
    1..3 complete paths (so the object is generically non-zero), extra charges that lie on some
    path, optional junk charges, in a drawn order; outer bonds have dimension 1.
    """
    steps = list(steps)
    if base is None:
        base = draw(st.lists(st.integers(0, len(steps) - 1), min_size=L, max_size=L))
    base = list(base)
    npaths = draw(st.integers(1, 3))
    paths = [base] + [draw(st.permutations(base)) for _ in range(npaths - 1)]
    Q = q0 + sum(steps[k] for k in base)
    left = _sumsets(steps, L)
    valid = []
    for i in range(L + 1):
        right = left[L - i]
        valid.append(sorted({q0 + a for a in left[i]} & {Q - b for b in right}))
    qD = [[q0]]
    for i in range(1, L):
        cs = []
        for p in paths:
            cs.append(q0 + sum(steps[k] for k in p[:i]))
        nextra = draw(st.integers(0, max(0, Dmax - len(cs))))
        if nextra:
            cs += draw(st.lists(st.sampled_from(valid[i]), min_size=nextra, max_size=nextra))
        if junk and draw(st.sampled_from(range(10))) == 7:
            cs += draw(st.lists(st.integers(-3, 3), min_size=1, max_size=2))
        if draw(st.sampled_from(range(4))) == 3:
            # thin out duplicates to reach bond dimension 1..2
            cs = cs[:draw(st.integers(1, 2))]
        order = draw(st.sampled_from(_ORDERS))
        if order == 'sorted':
            cs = sorted(cs)
        elif order == 'revsorted':
            cs = sorted(cs, reverse=True)
        elif order == 'perm':
            cs = list(draw(st.permutations(cs)))
        qD.append([int(c) for c in cs])
    qD.append([int(Q)])
    if L >= 2 and disjoint_prob > 0 and draw(st.sampled_from(range(max(2, int(round(1 / disjoint_prob)))))) == 1:
        # sector-disjoint layout: shift all charges of one interior bond -> zero object
        i = draw(st.integers(1, L - 1))
        qD[i] = [c + 1000 for c in qD[i]]
    return qD


@st.composite
def mps_desc(draw, Lmin=1, Lmax=5, dmin=1, dmax=4, Dmax=5, styles=ENTRY_STYLES, qd=None, q0=None,
             dense_cap=4096, disjoint_prob=0.04, junk=True):
    if qd is None:
        qd = draw(qd_strategy(dmin, dmax))
    d = len(qd)
    Lcap = Lmax
    while Lcap > Lmin and d ** Lcap > dense_cap:
        Lcap -= 1
    L = draw(st.sampled_from(_pref_order(Lmin, max(Lmin, Lcap))))
    if q0 is None:
        q0 = draw(st.sampled_from([0, 0, 0, 1, -2]))
    qD = draw(bond_charges(L, qd, q0=q0, Dmax=Dmax, junk=junk, disjoint_prob=disjoint_prob))
    return {'qd': [int(q) for q in qd], 'qD': qD,
            'seed': draw(st.integers(0, 2**31 - 1)), 'style': draw(st.sampled_from(styles))}


def mpo_steps(qd):
    return sorted({a - b for a in qd for b in qd})


@st.composite
def mpo_desc(draw, Lmin=1, Lmax=4, dmin=1, dmax=3, Dmax=4, styles=ENTRY_STYLES, qd=None, q0=None,
             dense_cap=1024, disjoint_prob=0.04, zero_shift=False, junk=True):
    if qd is None:
        qd = draw(qd_strategy(dmin, dmax))
    d = len(qd)
    Lcap = Lmax
    while Lcap > Lmin and d ** Lcap > dense_cap:
        Lcap -= 1
    L = draw(st.sampled_from(_pref_order(Lmin, max(Lmin, Lcap))))
    if q0 is None:
        q0 = 0 if zero_shift else draw(st.sampled_from([0, 0, 0, 1, -1]))
    steps = mpo_steps(qd)
    if zero_shift:
        qD = draw(bond_charges_zero_shift(L, steps, Dmax=Dmax))
    else:
        qD = draw(bond_charges(L, steps, q0=q0, Dmax=Dmax, junk=junk, disjoint_prob=disjoint_prob))
    return {'qd': [int(q) for q in qd], 'qD': qD,
            'seed': draw(st.integers(0, 2**31 - 1)), 'style': draw(st.sampled_from(styles))}


@st.composite
def bond_charges_zero_shift(draw, L, steps, Dmax=4):
    """Bond charges of an operator with zero total shift: qD[0] = qD[L] = [0]."""
    steps = list(steps)
    left = _sumsets(steps, L)
    valid = [sorted(left[i] & {-b for b in left[L - i]}) for i in range(L + 1)]
    qD = [[0]]
    for i in range(1, L):
        n = draw(st.integers(1, Dmax))
        cs = draw(st.lists(st.sampled_from(valid[i]), min_size=n, max_size=n))
        if 0 in valid[i] and draw(st.booleans()):
            cs[0] = 0
        order = draw(st.sampled_from(_ORDERS))
        if order == 'sorted':
            cs = sorted(cs)
        elif order == 'revsorted':
            cs = sorted(cs, reverse=True)
        elif order == 'perm':
            cs = list(draw(st.permutations(cs)))
        qD.append([int(c) for c in cs])
    qD.append([0])
    return qD


# --------------------------------------------------------------------------------------
# builders


def mps_tensors(desc):
    rng = np.random.default_rng(desc['seed'])
    qd = desc['qd']; qD = desc['qD']
    d = len(qd)
    out = []
    for i in range(len(qD) - 1):
        shape = (d, len(qD[i]), len(qD[i + 1]))
        A = fill_entries(shape, rng, desc['style'])
        A = np.where(mps_mask(qd, qD[i], qD[i + 1]), A, 0)
        s = desc.get('scale')
        if s is not None:
            A = A * s
        out.append(A)
    return out


def _container(desc):
    """Charges are handed to the constructors as lists, tuples, int64 or int32 arrays (chosen by the case seed)."""
    k = desc['seed'] % 4
    qd, qD = desc['qd'], desc['qD']
    if k == 1:
        return tuple(qd), tuple(tuple(q) for q in qD)
    if k == 2:
        return np.array(qd, dtype=np.int64), [np.array(q, dtype=np.int64) for q in qD]
    if k == 3 and max([abs(x) for x in qd] + [abs(x) for q in qD for x in q] + [0]) < 2**24:
        return np.array(qd, dtype=np.int32), [np.array(q, dtype=np.int32) for q in qD]
    return list(qd), [list(q) for q in qD]


def build_mps(desc):
    qd, qD = _container(desc)
    psi = ptn.MPS(qd, qD, fill='postpone')
    psi.A = mps_tensors(desc)
    return psi


def mpo_tensors(desc):
    rng = np.random.default_rng(desc['seed'])
    qd = desc['qd']; qD = desc['qD']
    d = len(qd)
    out = []
    for i in range(len(qD) - 1):
        shape = (d, d, len(qD[i]), len(qD[i + 1]))
        A = fill_entries(shape, rng, desc['style'])
        A = np.where(mpo_mask(qd, qD[i], qD[i + 1]), A, 0)
        out.append(A)
    return out


def build_mpo(desc):
    qd, qD = _container(desc)
    op = ptn.MPO(qd, qD, fill='postpone')
    op.A = mpo_tensors(desc)
    return op


def hermitian_mpo_from(desc):
    """
    M + M^dagger assembled in the harness (block-direct sum; conjugate, swap physical legs,
    negate bond charges). Requires zero total shift (qD[0] = qD[L] = [0]).
    """
    W = mpo_tensors(desc)
    qD = [list(q) for q in desc['qD']]
    L = len(W)
    assert qD[0] == [0] and qD[-1] == [0]
    Wd = [w.conj().transpose(1, 0, 2, 3) for w in W]
    qDd = [[-c for c in q] for q in qD]
    d = len(desc['qd'])
    if L == 1:
        A = [W[0] + Wd[0]]
        q = qD
    else:
        A = []
        q = [[0]]
        for i in range(L):
            a, b = W[i], Wd[i]
            if i == 0:
                A.append(np.concatenate([a, b], axis=3))
            elif i == L - 1:
                A.append(np.concatenate([a, b], axis=2))
            else:
                T = np.zeros((d, d, a.shape[2] + b.shape[2], a.shape[3] + b.shape[3]), dtype=np.result_type(a, b))
                T[:, :, :a.shape[2], :a.shape[3]] = a
                T[:, :, a.shape[2]:, a.shape[3]:] = b
                A.append(T)
            if i < L - 1:
                q.append(qD[i + 1] + qDd[i + 1])
        q.append([0])
    op = ptn.MPO(desc['qd'], q, fill='postpone')
    op.A = [np.asarray(a, dtype=complex) if a.dtype.kind in 'iu' else a for a in A]
    return op


# --------------------------------------------------------------------------------------
# block-sparse matrices (C11, C12)


@st.composite
def charge_vectors(draw, mmax=12, nmax=12):
    m = draw(st.integers(1, mmax))
    n = draw(st.integers(1, nmax))
    kind = draw(st.sampled_from(['small', 'small', 'small', 'const', 'large', 'disjoint', 'pairs', 'huge']))
    if kind == 'const':
        c = draw(st.integers(-3, 3))
        q0 = [c] * m; q1 = [c] * n
    elif kind == 'large':
        pool = draw(st.lists(st.integers(-2**20, 2**20), min_size=1, max_size=4))
        q0 = draw(st.lists(st.sampled_from(pool), min_size=m, max_size=m))
        q1 = draw(st.lists(st.sampled_from(pool), min_size=n, max_size=n))
    elif kind == 'huge':
        # charges beyond 2^53, where float64 no longer resolves neighbouring integers (int64 arithmetic is exact; sums stay below 2^63)
        pool = [2**60, 2**60 + 1, 2**60 - 1, -(2**61), -(2**61) + 1]
        q0 = draw(st.lists(st.sampled_from(pool), min_size=m, max_size=m))
        q1 = draw(st.lists(st.sampled_from(pool), min_size=n, max_size=n))
    elif kind == 'disjoint':
        q0 = draw(st.lists(st.integers(-3, 0), min_size=m, max_size=m))
        q1 = draw(st.lists(st.integers(1, 3), min_size=n, max_size=n))
    elif kind == 'pairs':
        pool = [(a << 16) + b for a in (-1, 0, 1, 2) for b in (-1, 0, 1)]
        q0 = draw(st.lists(st.sampled_from(pool), min_size=m, max_size=m))
        q1 = draw(st.lists(st.sampled_from(pool), min_size=n, max_size=n))
    else:
        k = draw(st.integers(1, 3))
        q0 = draw(st.lists(st.integers(-k, k), min_size=m, max_size=m))
        q1 = draw(st.lists(st.integers(-k, k), min_size=n, max_size=n))
    o0 = draw(st.sampled_from(['asis', 'sorted', 'revsorted']))
    o1 = draw(st.sampled_from(['asis', 'sorted', 'revsorted']))
    if o0 == 'sorted':
        q0 = sorted(q0)
    elif o0 == 'revsorted':
        q0 = sorted(q0, reverse=True)
    if o1 == 'sorted':
        q1 = sorted(q1)
    elif o1 == 'revsorted':
        q1 = sorted(q1, reverse=True)
    return [int(q) for q in q0], [int(q) for q in q1]


def block_matrix(q0, q1, seed, style):
    rng = np.random.default_rng(seed)
    q0a = np.asarray(q0); q1a = np.asarray(q1)
    A = fill_entries((len(q0), len(q1)), rng, style)
    if style == 'dupcols' and len(q0) >= 2:
        # also duplicate rows sometimes
        if rng.random() < 0.5:
            A[rng.integers(0, len(q0))] = A[rng.integers(0, len(q0))]
    A = np.where(q0a[:, None] == q1a[None, :], A, 0)
    # memory layout of the argument: C order, Fortran order, or a strided view into a larger buffer
    layout = seed % 3
    if layout == 1:
        A = np.asfortranarray(A)
    elif layout == 2:
        big = np.zeros((2 * A.shape[0] + 1, 2 * A.shape[1] + 1), dtype=A.dtype)
        big[1::2, 1::2] = A
        A = big[1::2, 1::2]
    return A


# --------------------------------------------------------------------------------------
# compatible families of objects


@st.composite
def sector_family(draw, n_mps=2, n_mpo=0, Lmin=1, Lmax=5, dmin=1, dmax=3, Dmax=4, dense_cap=1024,
                  styles=FLOAT_STYLES, zero_shift_ops=True, same_boundary_ops=True, q0s=(0, 0, 1, -2)):
    """
    n_mps states in one charge sector (same qd, L, leading and total charge; independent bond profiles) and
    n_mpo operators (zero total shift if zero_shift_ops, else a common shift when same_boundary_ops).
    """
    qd = draw(qd_strategy(dmin, dmax))
    d = len(qd)
    Lcap = Lmax
    while Lcap > Lmin and d ** Lcap > dense_cap:
        Lcap -= 1
    L = draw(st.sampled_from(_pref_order(Lmin, max(Lmin, Lcap))))
    q0 = draw(st.sampled_from(list(q0s)))
    base = draw(st.lists(st.integers(0, d - 1), min_size=L, max_size=L))
    out = {'mps': [], 'mpo': []}
    for k in range(n_mps):
        b = base if k == 0 else list(draw(st.permutations(base)))
        qD = draw(bond_charges(L, qd, q0=q0, Dmax=Dmax, base=b, disjoint_prob=0.02))
        out['mps'].append({'qd': [int(q) for q in qd], 'qD': qD, 'seed': draw(st.integers(0, 2**31 - 1)),
                           'style': draw(st.sampled_from(styles))})
    steps = mpo_steps(qd)
    if n_mpo:
        if zero_shift_ops:
            for k in range(n_mpo):
                qD = draw(bond_charges_zero_shift(L, steps, Dmax=Dmax))
                out['mpo'].append({'qd': [int(q) for q in qd], 'qD': qD, 'seed': draw(st.integers(0, 2**31 - 1)),
                                   'style': draw(st.sampled_from(styles))})
        else:
            p0 = draw(st.sampled_from([0, 0, 1, -1]))
            obase = draw(st.lists(st.integers(0, len(steps) - 1), min_size=L, max_size=L))
            for k in range(n_mpo):
                if same_boundary_ops:
                    b = obase if k == 0 else list(draw(st.permutations(obase)))
                    pk = p0
                else:
                    b = None
                    pk = draw(st.sampled_from([0, 0, 1, -1]))
                qD = draw(bond_charges(L, steps, q0=pk, Dmax=Dmax, base=b, disjoint_prob=0.02))
                out['mpo'].append({'qd': [int(q) for q in qd], 'qD': qD, 'seed': draw(st.integers(0, 2**31 - 1)),
                                   'style': draw(st.sampled_from(styles))})
    return out


@st.composite
def matrix_element_triple(draw, Lmin=1, Lmax=5, dmin=1, dmax=3, Dmax=4, dense_cap=1024, styles=FLOAT_STYLES):
    """
    (chi, op, psi, rho) sharing a path of physical index pairs (s_i, t_i): <chi|op|psi> and tr(op rho)
    are generically non-zero; the operator has an arbitrary total shift.
    """
    qd = draw(qd_strategy(dmin, dmax))
    d = len(qd)
    Lcap = Lmax
    while Lcap > Lmin and d ** Lcap > dense_cap:
        Lcap -= 1
    L = draw(st.sampled_from(_pref_order(Lmin, max(Lmin, Lcap))))
    s_idx = draw(st.lists(st.integers(0, d - 1), min_size=L, max_size=L))
    if draw(st.booleans()):
        t_idx = list(draw(st.permutations(s_idx)))      # zero total shift
    else:
        t_idx = draw(st.lists(st.integers(0, d - 1), min_size=L, max_size=L))
    steps = mpo_steps(qd)
    obase = [steps.index(qd[s] - qd[t]) for s, t in zip(s_idx, t_idx)]
    rbase = [steps.index(qd[t] - qd[s]) for s, t in zip(s_idx, t_idx)]
    q0 = draw(st.sampled_from([0, 0, 1]))
    p0 = draw(st.sampled_from([0, 0, -1]))

    def mk(qD):
        return {'qd': [int(q) for q in qd], 'qD': qD, 'seed': draw(st.integers(0, 2**31 - 1)),
                'style': draw(st.sampled_from(styles))}
    psi = mk(draw(bond_charges(L, qd, q0=q0, Dmax=Dmax, base=t_idx, disjoint_prob=0.02)))
    chi = mk(draw(bond_charges(L, qd, q0=q0 + p0, Dmax=Dmax, base=s_idx, disjoint_prob=0.02)))
    op = mk(draw(bond_charges(L, steps, q0=p0, Dmax=Dmax, base=obase, disjoint_prob=0.02)))
    rho = mk(draw(bond_charges(L, steps, q0=draw(st.sampled_from([0, 1])), Dmax=Dmax, base=rbase, disjoint_prob=0.02)))
    return {'chi': chi, 'op': op, 'psi': psi, 'rho': rho}
